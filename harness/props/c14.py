"""C14 - calibration solutions become corrections by the documented interpolation rules.

Drives the real `_normalise_cal_products`, `add_applycal_sensors` (multi-part stitching through
`cache.get(..., extract=False)`, the per-input correction sensors incl. the product-type dispatch and the
flux table merging), `complex_interp`, `calc_delay_correction`, `calc_bandpass_correction`,
`calc_gain_correction`, `calibrate_flux`, each against the compiled Lean model `kd_c14`
(Driver/C14.lean: mirror and, where they differ in structure, the pointwise spec).
"""
import json
import logging
import math
import os

import numpy as np

from harness import common
from harness.props.c13 import (atom_cf, atom_str, cbits, fbits, isnan_c, parse_reply, rand_c64, sstr, sx)

logging.getLogger('katdal').setLevel(logging.ERROR)

PROP = 'C14'
RULE = ('names cases = every request form (\'all\', \'default\', \'\', stream, type, stream.type, unknown names, '
        'comma-separated strings with surrounding whitespace, lists) x cal stream sets {}, {l1}, {l2}, {l1,l2} and '
        'odd stream names; stitch cases = 1-4 parts with independent strictly increasing timestamp sets, missing '
        'parts, 1-3 channels per part, values with NaN; cinterp cases = 1-6 nodes, complex64/complex128 values with '
        'phase wraps, x before / at / between / after nodes, both edge modes; gain cases = 0-7 solutions at random '
        'dumps with NaN patterns and the INVALID_GAIN placeholder, 1-3 channels, no targets or 1-3 targets in random '
        'sequences; bandpass cases = cal and data channelisations (equal, coarser, finer, offset) with invalid '
        'channels at the edges and inside; delay cases incl. NaN; flux cases = targets with aliases, flux tables with '
        'missing / NaN / zero / negative entries; pipeline cases = raw telstate-like sensors for K, B (1-4 parts), G, '
        'GPHASE, GAMP_PHASE through add_applycal_sensors with measured fluxes, overrides and None, every input; '
        'skipreject cases = calc_correction with complete / incomplete / unknown products, with and without '
        'skip_missing_products.  '
        'non-trivial = the case produced at least one numerically compared value (or a non-empty name list); '
        'distinct = hash of the model request lines.')
TRUSTED = ['Lean 4.33 kernel', 'axioms: propext, Classical.choice, Quot.sound only',
           'hand-written model KatdalModel/Model/ApplyCal.lean tied to /repo by this differential run',
           'double-precision instantiation compared with complex64 within 1e-5 relative (complex128: 1e-9); NaN '
           'pattern compared exactly',
           'CategoricalData / sensor_to_categorical turn raw product sensors into per-dump segments (C10); the model '
           'is fed the segments the implementation itself produced']
CHECKER = 'lake build KatdalModel.Props.C14 kd_c14 && lake env lean <#print axioms audit>'


def model(lines):
    return [parse_reply(r) if not r.startswith('E:') else r for r in common.run_model(PROP, lines)]


def cvals(node):
    return np.array([atom_cf(a)[0] for a in node], dtype=np.complex128)


def close(impl, spec, rel):
    """-> index of first disagreement or None.  NaN pattern exact, numbers within rel."""
    impl = np.asarray(impl).astype(np.complex128).ravel()
    spec = np.asarray(spec).astype(np.complex128).ravel()
    if impl.shape != spec.shape:
        return -1
    a, b = isnan_c(impl), isnan_c(spec)
    if not np.array_equal(a, b):
        return int(np.argwhere(a != b)[0][0])
    with np.errstate(all='ignore'):
        fin = ~a & np.isfinite(spec.real) & np.isfinite(spec.imag)
        err = np.abs(impl - spec)
        bad = fin & ~(err <= rel * np.abs(spec) + 1e-30)
    if bad.any():
        return int(np.argwhere(bad)[0][0])
    return None


# ------------------------------------------------------------------ names

STREAM_SETS = [[], ['l1'], ['l2'], ['l1', 'l2'], ['l2', 'l1'], ['cal'], ['l1', 'G'], ['all']]
WS = [' ', '\t', '  ', '', '', '', '\n', ' \r', '\x0b', '\x0c']
TYPES = ['K', 'B', 'G', 'GPHASE', 'GAMP_PHASE']


def gen_names(rng):
    streams = rng.choice(STREAM_SETS)
    r = rng.random()
    if r < 0.12:
        req = ['str', rng.choice(['all', 'default', '', 'all ', ' default', 'All'])]
    else:
        pool = (TYPES + ['l1', 'l2', 'cal', 'l1.G', 'l2.GPHASE', 'l1.K', 'l1.B', 'l3.G', 'l1.X', 'X', 'g', 'all',
                         'default', 'l1.', '.G', 'a.b.c', 'l1 .G'] + streams)
        items = [rng.choice(pool) for _ in range(rng.choice([1, 1, 2, 3, 4]))]
        if rng.random() < 0.5:
            req = ['str', ','.join(rng.choice(WS) + i + rng.choice(WS) for i in items)]
        else:
            req = ['seq', items, rng.choice(['list', 'tuple'])]
    return dict(kind='names', req=req, streams=streams)


def names_line(c):
    req = c['req']
    r = sx(['str', sstr(req[1])]) if req[0] == 'str' else sx(['seq'] + [sstr(s) for s in req[1]])
    return ' '.join(['names', r, sx([sstr(s) for s in c['streams']])])


def eval_names(ctx, c, node):
    from katdal.visdatav4 import _normalise_cal_products
    req = c['req']
    arg = req[1] if req[0] == 'str' else (list(req[1]) if req[2] == 'list' else tuple(req[1]))
    streams = {s: None for s in c['streams']}.keys() if len(c['streams']) % 2 else list(c['streams'])
    try:
        out, skip = _normalise_cal_products(arg, streams)
        impl = (list(out), bool(skip))
    except ValueError:
        impl = 'ValueError'
    except Exception as e:   # noqa: BLE001
        impl = 'other:' + type(e).__name__
    ctx.tag('names-' + ('err' if isinstance(impl, str) else 'ok'), 'names-' + req[0])
    if isinstance(node, str):
        if not isinstance(impl, str):
            return f'request {arg!r} with streams {c["streams"]} names an unknown product: expected ValueError, got {impl}', False
        return None, True
    mirror = [atom_str(a) for a in node[1]]
    skip = node[2] == '1'
    spec = [atom_str(a) for a in node[3]] if isinstance(node[3], list) else node[3]
    if spec != mirror:
        ctx.advise(f'names: mirror {mirror} != spec {spec} for {arg!r}')
    if isinstance(impl, str):
        return f'request {arg!r} with streams {c["streams"]}: implementation raised {impl}, expected {spec}', False
    if impl[0] != spec:
        return f'request {arg!r} with streams {c["streams"]} expands to {impl[0]}, documented expansion is {spec}', False
    if impl[1] != skip:
        return f'request {arg!r} with streams {c["streams"]}: skip_missing_products {impl[1]}, expected {skip}', False
    return None, bool(spec)


# ------------------------------------------------------------------ stitch

def gen_stitch(rng):
    n_parts = rng.randint(1, 4)
    nch = rng.randint(1, 3)
    pol_ant = rng.choice([(1, 1), (2, 1), (2, 2)])
    parts = []
    for _ in range(n_parts):
        if rng.random() < 0.2:
            parts.append(None)     # part missing from the cache
            continue
        times = sorted(rng.sample(range(0, 12), rng.randint(0, 4)))
        vals = []
        for _t in times:
            vals.append([[list(map(float, (z.real, z.imag))) for z in
                          [rand_c64(rng, 0.15) for _ in range(nch * pol_ant[0] * pol_ant[1])]]])
        parts.append(dict(times=times, vals=[v[0] for v in vals]))
    return dict(kind='stitch', nch=nch, pol_ant=list(pol_ant), parts=parts, ptype=rng.choice(['B', 'G', 'K']),
                epoch=rng.choice([0.0, 1600000000.0]))     # realistic Unix times: equality must be exact


def stitch_line(c):
    parts = []
    for p in c['parts']:
        if p is None:
            parts.append(sx([]))
        else:
            parts.append(sx([sx([str(t), sx([cbits(complex(*z)) for z in v])]) for t, v in zip(p['times'], p['vals'])]))
    return 'stitch ' + sx(parts)


def eval_stitch(ctx, c, node):
    from katdal.applycal import add_applycal_sensors
    from katdal.categorical import ComparableArrayWrapper
    from katdal.sensordata import SensorCache, SimpleSensorGetter
    from katdal.visdatav4 import SENSOR_PROPS
    nch, pol_ant, ptype = c['nch'], tuple(c['pol_ant']), c['ptype']
    epoch = float(c.get('epoch', 0.0))
    raw = {}
    for n, p in enumerate(c['parts']):
        if p is None:
            continue
        vals = [ComparableArrayWrapper(np.array([complex(*z) for z in v], dtype=np.complex64).reshape((nch,) + pol_ant))
                for v in p['vals']]
        arr = np.empty(len(vals), dtype=object)
        arr[:] = vals
        raw[f'cal_product_{ptype}{n}'] = SimpleSensorGetter(None, np.array(p['times'], dtype=float) + epoch, arr)
    from katdal.categorical import CategoricalData
    raw['Observation/target'] = CategoricalData([0], [0, 12])
    cache = SensorCache(raw, timestamps=np.arange(12, dtype=float) + epoch, dump_period=1.0, props=SENSOR_PROPS)
    attrs = {'antlist': [f'm{i:03}' for i in range(pol_ant[1])], 'pol_ordering': ['h', 'v'][:pol_ant[0]],
             'center_freq': 1284e6, 'bandwidth': 856e6, 'n_chans': nch * len(c['parts']),
             f'product_{ptype}_parts': len(c['parts'])}
    add_applycal_sensors(cache, attrs, np.arange(4.0), 'l1', ['cal'], gaincal_flux=None)
    ctx.tag(f'stitch-parts-{len(c["parts"])}')
    try:
        getter = cache.get(f'Calibration/Products/l1/{ptype}', extract=False)
        data = getter.get()
        impl = [(float(t) - epoch, np.asarray(ComparableArrayWrapper.unwrap(v))) for t, v in zip(data.timestamp, data.value)]
        ctx.tag('stitch-epoch-times' if epoch else 'stitch-small-times')
    except KeyError:
        impl = 'KeyError'
    except Exception as e:   # noqa: BLE001
        impl = 'other:' + type(e).__name__ + ':' + str(e)[:80]
    if isinstance(node, str):
        ctx.tag('stitch-empty')
        if impl != 'KeyError' and not isinstance(impl, str):
            return f'multi-part product with no values in any part: expected KeyError, got {len(impl)} events', False
        return None, False
    spec = [(int(e[0]), cvals(e[1])) for e in node[2]]
    mirror = [(int(e[0]), cvals(e[1])) for e in node[1]]
    if len(mirror) != len(spec) or any(a[0] != b[0] or close(a[1], b[1], 1e-12) is not None for a, b in zip(mirror, spec)):
        ctx.advise('stitch: mirror differs from spec')
    if isinstance(impl, str):
        return f'stitching parts raised {impl}; expected events at {[t for t, _ in spec]}', False
    if [t for t, _ in impl] != [float(t) for t, _ in spec]:
        return (f'stitched timestamps {[t for t, _ in impl]} != strictly increasing union of the parts\' timestamps '
                f'{[t for t, _ in spec]}'), False
    if any(p is None for p in c['parts']):
        ctx.tag('stitch-missing-part')
    for (t, v), (_, s) in zip(impl, spec):
        if v.shape != (nch * len(c['parts']),) + pol_ant:
            return f'stitched value at t={t} has shape {v.shape}, expected {(nch * len(c["parts"]),) + pol_ant}', False
        k = close(v, s, 1e-7)
        if k is not None:
            return (f'stitched value at t={t}: flat element {k} is {v.ravel()[k]}, expected {s[k]} '
                    f'(parts in order, absent parts invalid)'), False
    return None, True


# ------------------------------------------------------------------ complex_interp

def gen_cinterp(rng):
    n = rng.randint(1, 6)
    xi = sorted(rng.sample(range(0, 40), n))
    wide = rng.random() < 0.5
    yi = []
    ph = rng.uniform(-math.pi, math.pi)
    for _ in range(n):
        ph += rng.uniform(-2.9, 2.9) if not wide else rng.uniform(-9, 9)
        mag = 2.0 ** rng.uniform(-2, 2)
        yi.append(mag * complex(math.cos(ph), math.sin(ph)))
    dtype = rng.choice(['complex64', 'complex128'])
    yi = [complex(np.dtype(dtype).type(z)) for z in yi]
    xs = [rng.choice(xi + [xi[0] - 1, xi[-1] + 2, rng.uniform(xi[0] - 2, xi[-1] + 2)]) for _ in range(rng.randint(1, 8))]
    return dict(kind='cinterp', xi=[float(x) for x in xi], yi=[[z.real, z.imag] for z in yi], dtype=dtype,
                x=[float(x) for x in xs], edge=rng.choice(['h', 'i']))


def cinterp_line(c):
    pts = sx([sx([fbits(x), cbits(complex(*z))]) for x, z in zip(c['xi'], c['yi'])])
    return ' '.join(['cinterp', c['edge'], pts, sx([fbits(x) for x in c['x']])])


def eval_cinterp(ctx, c, node):
    from katdal.applycal import INVALID_GAIN, complex_interp
    yi = np.array([complex(*z) for z in c['yi']], dtype=c['dtype'])
    kw = dict(left=INVALID_GAIN, right=INVALID_GAIN) if c['edge'] == 'i' else {}
    with np.errstate(all='ignore'):
        got = complex_interp(np.array(c['x']), np.array(c['xi']), yi, **kw)
    spec = cvals(node[1])
    ctx.tag('cinterp-' + c['edge'])
    rel = 2e-5 if c['dtype'] == 'complex64' else 1e-9
    k = close(got, spec, rel)
    if k is not None:
        return (f"complex_interp(x={c['x'][k] if k >= 0 else '?'}, xi={c['xi']}, yi={yi.tolist()}, edge={c['edge']}) = "
                f"{got[k] if k >= 0 else got}, expected {spec[k] if k >= 0 else spec}"), False
    if got.dtype != yi.dtype:
        return f'complex_interp returned dtype {got.dtype} for {yi.dtype} input', False
    return None, True


# ------------------------------------------------------------------ gain / bandpass / delay / flux on sensors

def make_categorical(T, times, values, initial=None):
    from katdal.categorical import ComparableArrayWrapper, sensor_to_categorical
    wrapped = [ComparableArrayWrapper(v) for v in values]
    arr = np.empty(len(wrapped), dtype=object)
    arr[:] = wrapped
    return sensor_to_categorical(np.array(times, dtype=float), arr, np.arange(T, dtype=float), 1.0,
                                 initial_value=initial)


def segs_of(sensor, index, invalid):
    """what the correction calculators see: (start dump, None for the placeholder | flattened value[index])"""
    out = []
    for seg, value in sensor.segments():
        if value is invalid:
            out.append((int(seg.start), None))
        else:
            out.append((int(seg.start), np.atleast_1d(np.asarray(value)[(Ellipsis,) + index]).astype(np.complex128)))
    return out


def segs_sx(segs, names=None):
    items = []
    for k, (s, v) in enumerate(segs):
        body = [str(s), '_' if v is None else sx([cbits(z) for z in v])]
        if names is not None:
            body.append(sx([sstr(n) for n in names[k]]))
        items.append(sx(body))
    return sx(items)


def gen_gain(rng):
    T = rng.randint(2, 10)
    nch = rng.choice([1, 1, 2, 3])
    pol_ant = (2, 2)
    n_ev = rng.randint(0, min(7, T))
    times = sorted(rng.sample(range(0, T), n_ev))
    vals = []
    ph = [[rng.uniform(-3, 3) for _ in range(4)] for _ in range(nch)]
    dead = (rng.randrange(2), rng.randrange(2)) if rng.random() < 0.2 else None
    squeeze = nch == 1 and rng.random() < 0.5     # "G"-like (pol, ant) values vs "GPHASE"-like (chan, pol, ant)
    for _ in times:
        v = np.zeros((nch,) + pol_ant, dtype=np.complex64)
        for ch in range(nch):
            for k in range(4):
                ph[ch][k] += rng.uniform(-4, 4)
                mag = 2.0 ** rng.uniform(-1.5, 1.5)
                z = mag * complex(math.cos(ph[ch][k]), math.sin(ph[ch][k]))
                r = rng.random()
                if r < 0.18:
                    z = complex(np.nan, np.nan)
                elif r < 0.2:
                    z = complex(np.nan, 1.0)
                elif r < 0.24:
                    z = 0j                       # a dead signal path: a valid solution whose inverse is not a number
                v[ch, k // 2, k % 2] = z
        if dead:
            v[:, dead[0], dead[1]] = np.nan
        vals.append(v[0] if squeeze else v)
    use_targets = rng.random() < 0.6
    targets = None
    if use_targets:
        ntg = rng.randint(1, 3)
        tg = []
        cur = rng.randrange(ntg)
        for _ in range(T):
            if rng.random() < 0.35:
                cur = rng.randrange(ntg)
            tg.append(cur)
        targets = tg
    return dict(kind='gain', T=T, times=times, vals=[[[float(z.real), float(z.imag)] for z in v.ravel()] for v in vals],
                shapes=[list(v.shape) for v in vals], targets=targets, initial=rng.random() < 0.8,
                index=[rng.randrange(2), rng.randrange(2)])


def rebuild_vals(c):
    return [np.array([complex(*z) for z in v], dtype=np.complex64).reshape(s) for v, s in zip(c['vals'], c['shapes'])]


def gain_sensor(c):
    from katdal.applycal import INVALID_GAIN
    from katdal.categorical import CategoricalData
    T = c['T']
    vals = rebuild_vals(c)
    if not c['times']:
        if not c['initial']:
            return None
        return CategoricalData([INVALID_GAIN], [0, T])
    return make_categorical(T, c['times'], vals, INVALID_GAIN if c['initial'] else None)


def eval_gain(ctx, c):
    """-> (request line, continuation(node) -> (violation, nontrivial)) or None"""
    from katdal.applycal import INVALID_GAIN, calc_gain_correction
    from katdal.categorical import CategoricalData
    sensor = gain_sensor(c)
    if sensor is None:
        return None
    index = tuple(c['index'])
    T = int(sensor.events[-1])
    segs = segs_of(sensor, index, INVALID_GAIN)
    targets = None
    tg_list = None
    if c['targets'] is not None:
        tg_list = c['targets'][:T]
        ev = [0] + [d for d in range(1, T) if tg_list[d] != tg_list[d - 1]] + [T]
        targets = CategoricalData([tg_list[e] for e in ev[:-1]], ev)
    line = ' '.join(['gain', segs_sx(segs), str(T), '_' if tg_list is None else sx([str(t) for t in tg_list])])

    def cont(node):
        with np.errstate(all='ignore'):
            try:
                got = np.asarray(calc_gain_correction(sensor, index, targets))
            except Exception as e:   # noqa: BLE001
                return f'calc_gain_correction raised {type(e).__name__}: {str(e)[:120]} on segments {segs}', False
        mirror = np.array([cvals(r) for r in node[1]])
        spec = np.array([cvals(r) for r in node[2]])
        if close(mirror, spec, 1e-12) is not None:
            ctx.advise('gain: mirror differs from pointwise spec')
        ctx.tag('gain-targets' if tg_list is not None else 'gain-plain', f'gain-events-{min(len(segs), 4)}')
        if got.shape != spec.shape:
            return f'calc_gain_correction shape {got.shape}, expected {spec.shape}', False
        k = close(got, spec, 2e-5)
        if k is not None:
            d, ch = divmod(k, spec.shape[1])
            return (f'gain correction at dump {d} chan {ch} is {got[d, ch]}, expected {spec[d, ch]}: solutions '
                    f'{[(s, None if v is None else v.tolist()) for s, v in segs]}, targets {tg_list}'), False
        return None, bool((~isnan_c(spec)).any())
    return line, cont


def gen_bandpass(rng):
    F = rng.randint(1, 8)
    data_freqs = [1000.0 + 8 * k for k in range(F)]
    r = rng.random()
    if r < 0.4:
        cal = list(data_freqs)
    else:
        C = rng.randint(1, 9)
        step = rng.choice([4.0, 8.0, 16.0, 5.0])
        base = 1000.0 + rng.choice([0.0, -4.0, 4.0, 12.0, -20.0])
        cal = [base + step * k for k in range(C)]
    C = len(cal)
    ph = rng.uniform(-3, 3)
    bp = []
    for _ in range(C):
        ph += rng.uniform(-2, 2)
        bp.append(2.0 ** rng.uniform(-1, 1) * complex(math.cos(ph), math.sin(ph)))
    bad = set()
    mode = rng.random()
    if mode < 0.3:
        bad = set(rng.sample(range(C), rng.randint(0, C)))
    elif mode < 0.6:
        lo, hi = sorted((rng.randint(0, C), rng.randint(0, C)))
        bad = set(range(0, lo)) | set(range(hi, C))
    for k in bad:
        bp[k] = rng.choice([complex(np.nan, np.nan), complex(np.inf, 0), complex(np.nan, 0)])
    if rng.random() < 0.1 and C:
        bp[rng.randrange(C)] = 0j
    return dict(kind='bandpass', data_freqs=data_freqs, cal_freqs=cal,
                bp=[[float(np.float32(z.real)), float(np.float32(z.imag))] for z in bp])


def eval_bandpass(ctx, c):
    from katdal.applycal import calc_bandpass_correction
    from katdal.categorical import CategoricalData, ComparableArrayWrapper
    C = len(c['cal_freqs'])
    bp = np.array([complex(*z) for z in c['bp']], dtype=np.complex64)
    full = np.ones((C, 2, 2), dtype=np.complex64)
    full[:, 1, 0] = bp
    sensor = CategoricalData([ComparableArrayWrapper(np.ones((C, 2, 2), np.complex64)), ComparableArrayWrapper(full)],
                             [0, 2, 5])
    line = ' '.join(['bandpass', sx([fbits(f) for f in c['data_freqs']]), sx([fbits(f) for f in c['cal_freqs']]),
                     sx([cbits(z) for z in bp])])

    def cont(node):
        with np.errstate(all='ignore'):
            try:
                out = calc_bandpass_correction(sensor, (1, 0), np.array(c['data_freqs']), np.array(c['cal_freqs']))
                got = np.asarray(out[3])
            except Exception as e:   # noqa: BLE001
                return f'calc_bandpass_correction raised {type(e).__name__}: {str(e)[:120]}', False
        spec = cvals(node[1])
        tainted = np.array([atom_cf(a)[1] for a in node[1]])
        ctx.tag('bandpass')
        if tainted.any():
            ctx.tag('bandpass-tainted')
            return None, False
        k = close(got, spec, 2e-5)
        if k is not None:
            return (f'bandpass correction at data channel {k} (freq {c["data_freqs"][k] if k >= 0 else "?"}) is '
                    f'{got[k] if k >= 0 else got.shape}, expected {spec[k] if k >= 0 else spec.shape}: cal freqs '
                    f'{c["cal_freqs"]}, solution {bp.tolist()}'), False
        if isnan_c(spec).any():
            ctx.tag('bandpass-invalid-out')
        return None, bool((~isnan_c(spec)).any())
    return line, cont


def gen_delay(rng):
    F = rng.randint(1, 6)
    freqs = [856e6 + k * 208984.375 for k in range(F)]
    # an infinite delay is an invalid solution, not a missing one: its correction is not a number (so the data are
    # left as stored, zero-weighted and flagged), never the unit correction of a missing delay
    d = rng.choice([float('nan'), 0.0, rng.uniform(-5e-9, 5e-9), rng.uniform(-1e-7, 1e-7), 1e-12,
                    rng.choice([float('inf'), float('-inf')])])
    return dict(kind='delay', freqs=freqs, delay=d)


def eval_delay(ctx, c):
    from katdal.applycal import calc_delay_correction
    from katdal.categorical import CategoricalData, ComparableArrayWrapper
    d = c['delay']
    val = np.zeros((2, 2))
    val[0, 1] = d
    sensor = CategoricalData([ComparableArrayWrapper(np.zeros((2, 2))), ComparableArrayWrapper(val)], [0, 1, 3])
    line = ' '.join(['delay', '_' if math.isnan(d) else fbits(d), sx([fbits(f) for f in c['freqs']])])

    def cont(node):
        out = calc_delay_correction(sensor, (0, 1), np.array(c['freqs']))
        got = np.asarray(out[2])
        spec = cvals(node[1])
        ctx.tag('delay-nan' if math.isnan(d) else ('delay-inf' if math.isinf(d) else 'delay'))
        k = close(got, spec, 1e-5)
        if k is not None:
            return f'delay correction for delay {d} at freq {c["freqs"][k]} is {got[k]}, expected exp(-2 pi i d f) = {spec[k]}', False
        if got.dtype != np.complex64:
            return f'delay correction dtype {got.dtype}', False
        return None, True
    return line, cont


def gen_delayhist(rng):
    """a history of K solutions for one input: valid, zero and missing (NaN) delays in any order"""
    F = rng.randint(1, 4)
    freqs = [856e6 + k * 208984.375 for k in range(F)]
    n = rng.randint(2, 4)
    delays = [rng.choice([float('nan'), float('nan'), 0.0, rng.uniform(-5e-9, 5e-9), rng.uniform(-5e-9, 5e-9),
                          rng.choice([float('inf'), float('-inf')])])
              for _ in range(n)]
    return dict(kind='delayhist', freqs=freqs, delays=delays)


def eval_delayhist(ctx, c):
    from katdal.applycal import calc_delay_correction
    from katdal.categorical import CategoricalData, ComparableArrayWrapper
    vals = []
    for k, d in enumerate(c['delays']):
        v = np.full((2, 2), 1e-10 * (k + 1))          # the other inputs differ from solution to solution
        v[0, 1] = d
        vals.append(ComparableArrayWrapper(v))
    events = list(range(0, 2 * len(vals) + 1, 2))
    sensor = CategoricalData(vals, events)
    lines = [' '.join(['delay', '_' if math.isnan(d) else fbits(d), sx([fbits(f) for f in c['freqs']])])
             for d in c['delays']]

    def cont(nodes):
        out = calc_delay_correction(sensor, (0, 1), np.array(c['freqs']))
        ctx.tag('delay-history')
        for k, (d, node) in enumerate(zip(c['delays'], nodes)):
            got = np.asarray(out[events[k]])
            spec = cvals(node[1])
            j = close(got, spec, 1e-5)
            if j is not None:
                return (f'delay history {c["delays"]}: correction during solution {k} (delay {d}) at freq '
                        f'{c["freqs"][j]} is {got[j]}, expected exp(-2 pi i d f) with a missing delay as zero = {spec[j]}'), False
        return None, True
    return lines, cont


TARGET_NAMES = ['gaincal1', 'gaincal2', 'other', 'J1939-6342', 'PKS 1934-63', 'unknown']


def gen_flux(rng):
    T = rng.randint(2, 8)
    ntg = rng.randint(1, 3)
    tdefs = []
    for _ in range(ntg):
        names = rng.sample(TARGET_NAMES, rng.randint(1, 3))
        tdefs.append(names)
    seq = []
    cur = rng.randrange(ntg)
    for _ in range(T):
        if rng.random() < 0.4:
            cur = rng.randrange(ntg)
        seq.append(cur)
    table = {}
    for nm in rng.sample(TARGET_NAMES, rng.randint(0, 4)):
        table[nm] = rng.choice([16.0, 4.0, 2.5, 1.0, 0.0, -3.0, float('nan'), 0.25])
    g = gen_gain(rng)
    g['T'] = T
    g['times'] = [t for t in g['times'] if t < T]
    g['vals'] = g['vals'][:len(g['times'])]
    g['shapes'] = g['shapes'][:len(g['times'])]
    return dict(kind='flux', T=T, tdefs=tdefs, seq=seq, table=table, gain=g)


def target_sensor(c):
    import katpoint
    from katdal.categorical import CategoricalData
    T = c['T']
    tobjs = [katpoint.Target(' | '.join(names) + f', radec, {k}, -{30 + k}') for k, names in enumerate(c['tdefs'])]
    seq = c['seq']
    ev = [0] + [d for d in range(1, T) if seq[d] != seq[d - 1]] + [T]
    return CategoricalData([tobjs[seq[e]] for e in ev[:-1]], ev), tobjs


def table_sx(table):
    return sx([sx([sstr(k), '_' if (v is None or math.isnan(v)) else fbits(v)]) for k, v in table.items()])


def eval_flux(ctx, c):
    from katdal.applycal import INVALID_GAIN, calibrate_flux
    g = c['gain']
    sensor = gain_sensor(g)
    if sensor is None:
        return None
    targets, tobjs = target_sensor(c)
    full = (Ellipsis,)
    segs = []
    names = []
    for seg, value in sensor.segments():
        tobj = targets[seg.start]
        names.append([tobj.name] + list(tobj.aliases))
        segs.append((int(seg.start), None if value is INVALID_GAIN else np.asarray(value).ravel().astype(np.complex128)))
    line = ' '.join(['flux', segs_sx(segs, names), table_sx(c['table'])])
    del full

    def cont(node):
        with np.errstate(all='ignore'):
            try:
                out = calibrate_flux(sensor, targets, dict(c['table']))
            except Exception as e:   # noqa: BLE001
                return f'calibrate_flux raised {type(e).__name__}: {str(e)[:120]}', False
        ctx.tag('flux-empty-table' if not c['table'] else 'flux')
        got = list(out.segments())
        if len(got) != len(node[1]):
            # equal consecutive values may be merged by CategoricalData; compare per dump instead
            pass
        spec_by_start = {int(e[0]): (None if e[1] == '_' else cvals(e[1])) for e in node[1]}
        starts = sorted(spec_by_start)
        for d in range(c['T'] if not starts else int(sensor.events[-1])):
            s = max(x for x in starts if x <= d)
            spec = spec_by_start[s]
            val = out[d]
            if spec is None:
                if val is not INVALID_GAIN:
                    return f'calibrate_flux replaced the INVALID_GAIN placeholder at dump {d}', False
                continue
            if val is INVALID_GAIN:
                return f'calibrate_flux returned the placeholder at dump {d} where a solution exists', False
            k = close(np.asarray(val).ravel(), spec, 1e-6)
            if k is not None:
                return (f'flux-calibrated gain at dump {d} element {k} is {np.asarray(val).ravel()[k]}, expected {spec[k]} '
                        f'(names {names[starts.index(s)]}, table {c["table"]})'), False
        return None, bool(c['table'])
    return line, cont


# ------------------------------------------------------------------ pipeline through add_applycal_sensors

def gen_pipeline(rng):
    T = rng.randint(3, 8)
    F = rng.randint(2, 6)
    C = rng.choice([F, F, 2, 4, 8])
    parts = rng.choice([None, 1, 2]) if C % 2 == 0 else rng.choice([None, 1])
    fx = gen_flux(rng)
    fx['T'] = T
    fx['seq'] = (fx['seq'] * T)[:T]
    return dict(kind='pipeline', T=T, F=F, C=C, b_parts=parts, seed=rng.randrange(2 ** 31), flux=fx,
                substreams=rng.random() < 0.4,
                overrides=rng.choice(['none', 'empty', 'some', 'some', 'default']),
                earlier=rng.random() < 0.35,
                ptype=rng.choice(['K', 'B', 'G', 'G', 'GPHASE', 'GAMP_PHASE']),
                inp=rng.choice(['m000h', 'm000v', 'm001h', 'm001v']), nan_rate=rng.choice([0.0, 0.15, 0.3]))


def eval_pipeline(ctx, c):
    """builds the cache, reads the product sensor the implementation made, returns (lines, cont)"""
    import random
    from katdal.applycal import INVALID_GAIN, add_applycal_sensors, get_cal_product
    from katdal.categorical import ComparableArrayWrapper
    from katdal.sensordata import SensorCache, SimpleSensorGetter
    from katdal.spectral_window import SpectralWindow
    from katdal.visdatav4 import SENSOR_PROPS
    rng = random.Random(c['seed'])
    T, F, C = c['T'], c['F'], c['C']
    ants, pols = ['m000', 'm001'], ['v', 'h']
    pol_ant = (2, 2)
    spw = SpectralWindow(1284e6, None, F, sideband=1, bandwidth=F * 1e6)
    freqs = spw.channel_freqs
    cal_spw = SpectralWindow(1284e6 + rng.choice([0.0, 0.25e6]), None, C, sideband=1, bandwidth=F * 1e6)

    def wrap(vals):
        arr = np.empty(len(vals), dtype=object)
        arr[:] = [ComparableArrayWrapper(v) for v in vals]
        return arr

    def rnd(shape, nan_rate):
        a = np.zeros(shape, dtype=np.complex64)
        ph = rng.uniform(-3, 3)
        for idx in np.ndindex(*shape):
            ph += rng.uniform(-2.5, 2.5)
            a[idx] = 2.0 ** rng.uniform(-1, 1) * complex(math.cos(ph), math.sin(ph))
            if rng.random() < nan_rate:
                a[idx] = np.nan
        return a
    targets, tobjs = target_sensor(c['flux'])
    raw = {'Observation/target': targets}
    # one cal stream, or two substreams (self-cal: one per target) whose solution times interleave
    subs = ['cal'] if not c.get('substreams') else ['cala', 'calb']
    solutions = {}

    def put(product, times, vals):
        """register the raw solutions of one product, dealt out over the substreams"""
        solutions[product] = (list(times), list(vals))
        owner = [rng.randrange(len(subs)) for _ in times]
        for si, sub in enumerate(subs):
            mine = [k for k in range(len(times)) if owner[k] == si]
            raw[f'{sub}_product_{product}'] = SimpleSensorGetter(
                None, np.array([times[k] for k in mine], dtype=float), wrap([vals[k] for k in mine]))
    k_times = sorted(rng.sample(range(T), rng.randint(1, 2)))
    k_vals = []
    for _ in k_times:
        d = np.array([[rng.uniform(-3e-9, 3e-9) for _ in range(2)] for _ in range(2)])
        if rng.random() < 0.4:
            d[rng.randrange(2), rng.randrange(2)] = np.nan
        k_vals.append(d)
    put('K', k_times, k_vals)
    b_times = sorted(rng.sample(range(T), rng.randint(1, 2)))
    b_vals = [rnd((C,) + pol_ant, c['nan_rate']) for _ in b_times]
    if c['b_parts'] is None:
        put('B', b_times, b_vals)
    else:
        n = c['b_parts']
        for p in range(n):
            put(f'B{p}', b_times, [np.split(v, n)[p] for v in b_vals])
        solutions['B'] = (list(b_times), list(b_vals))
    g_times = sorted(rng.sample(range(T), rng.randint(1, min(T, 5))))
    put('G', g_times, [rnd(pol_ant, c['nan_rate']) for _ in g_times])
    gp_times = sorted(rng.sample(range(T), rng.randint(1, min(T, 5))))
    put('GPHASE', gp_times, [rnd((C,) + pol_ant, c['nan_rate']) for _ in gp_times])
    put('GAMP_PHASE', gp_times, [rnd(pol_ant, c['nan_rate']) for _ in gp_times])
    cache = SensorCache(raw, timestamps=np.arange(T, dtype=float), dump_period=1.0, props=SENSOR_PROPS)
    measured = dict(c['flux']['table'])
    attrs = {'antlist': ants, 'pol_ordering': pols, 'center_freq': cal_spw.centre_freq, 'bandwidth': cal_spw.bandwidth,
             'n_chans': C, 'measured_flux': measured}
    if c['b_parts'] is not None:
        attrs['product_B_parts'] = c['b_parts']
    if c['overrides'] == 'none':
        override = None
    elif c['overrides'] == 'empty':
        override = {}
    elif c['overrides'] == 'default':
        override = {}           # the keyword left out: documented default "no overrides"
    else:
        override = {nm: rng.choice([9.0, 0.0, 2.0]) for nm in rng.sample(TARGET_NAMES, 2)}
    given = None if override is None else dict(override)
    kw = {} if c['overrides'] == 'default' else dict(gaincal_flux=override)
    if c.get('earlier'):
        # an earlier registration in the same process (another data set or stream) with other measured fluxes and the
        # same override object (or the same default): it must leave nothing behind for this one
        import copy
        cache0 = SensorCache(copy.deepcopy(raw), timestamps=np.arange(T, dtype=float), dump_period=1.0, props=SENSOR_PROPS)
        attrs0 = dict(attrs, measured_flux={nm: 64.0 for nm in TARGET_NAMES})
        add_applycal_sensors(cache0, attrs0, freqs, 'l1', subs, **kw)
        ctx.tag('pipeline-earlier-registration')
    cal_freqs = add_applycal_sensors(cache, attrs, freqs, 'l1', subs, **kw)
    override = given
    if attrs['measured_flux'] != dict(c['flux']['table']):
        # the overrides belong to this call only: the stream's measured fluxes must stay what the pipeline measured
        # (a later open of the same stream without overrides would otherwise be scaled by stale values)
        msg = (f"add_applycal_sensors(gaincal_flux={override}) changed the cal stream's measured_flux attribute from "
               f"{dict(c['flux']['table'])} to {attrs['measured_flux']}")
        return [], (lambda nodes, msg=msg: (msg, False))
    ptype, inp = c['ptype'], c['inp']
    index = (pols.index(inp[-1]), ants.index(inp[:-1]))
    product = get_cal_product(cache, 'l1', ptype)
    ctx.tag('pipeline-substreams-%d' % len(subs))
    # the product sensor holds, at the dump of every solution, that very solution (whatever substream or part it
    # came from): the corrections below are derived from the product sensor, so this ties them to the raw solutions
    for t_sol, v_sol in zip(*solutions[ptype]):
        got_v = np.asarray(product[int(t_sol)])
        if got_v.shape != np.asarray(v_sol).shape or not np.array_equal(got_v, v_sol, equal_nan=True):
            msg = (f'product sensor {ptype} at the dump of the solution solved at t={t_sol} does not hold that solution '
                   f'(solution times {solutions[ptype][0]}, substreams {subs}, parts {c["b_parts"]})')
            return [], (lambda nodes, msg=msg: (msg, False))
    if ptype in ('G', 'GPHASE', 'GAMP_PHASE') and solutions[ptype][0]:
        # a gain solution says nothing about the time before it was derived: until the first solution the product
        # sensor holds the invalid gain (so that no earlier dump, on whatever target, is corrected with it)
        first_t = int(min(solutions[ptype][0]))
        for d_early in range(first_t):
            if not np.all(np.isnan(np.asarray(product[d_early]))):
                msg = (f'product sensor {ptype} at dump {d_early}, before the first solution (t={first_t}), holds a '
                       f'valid gain instead of the invalid marker')
                return [], (lambda nodes, msg=msg: (msg, False))
        if first_t:
            ctx.tag('pipeline-gain-before-first-solution')
    with np.errstate(all='ignore'):
        corr = cache.get(f'Calibration/Corrections/l1/{ptype}/{inp}')
    ctx.tag('pipeline-' + ptype, 'pipeline-override-' + c['overrides'])
    Tn = int(product.events[-1])
    tg_ids = [tobjs.index(targets[d]) for d in range(Tn)]
    if ptype in ('G', 'GPHASE', 'GAMP_PHASE'):
        segs = segs_of(product, index, INVALID_GAIN)
        if ptype == 'G':
            names = []
            for seg, _v in product.segments():
                tobj = targets[seg.start]
                names.append([tobj.name] + list(tobj.aliases))
            lines = [' '.join(['gflux', table_sx(measured), '_' if override is None else table_sx(override),
                               segs_sx(segs, names), str(Tn)])]
        else:
            lines = [' '.join(['gain', segs_sx(segs), str(Tn), sx([str(t) for t in tg_ids])])]

        def cont(nodes):
            spec = np.array([cvals(r) for r in nodes[0][1]])
            got = np.asarray(corr)
            if got.shape != spec.shape:
                return f'{ptype} correction sensor shape {got.shape}, expected {spec.shape}', False
            k = close(got, spec, 2e-5)
            if k is not None:
                d, ch = divmod(k, spec.shape[1])
                return (f'{ptype} correction for {inp} at dump {d} chan {ch} is {got[d, ch]}, expected {spec[d, ch]} '
                        f'(solutions {[(s, None if v is None else v.tolist()) for s, v in segs]}, targets {tg_ids}, '
                        f'measured flux {measured}, overrides {override})'), False
            return None, bool((~isnan_c(spec)).any())
        return lines, cont
    lines = []
    starts = []
    for seg, value in product.segments():
        starts.append(int(seg.start))
        if ptype == 'K':
            d = float(np.asarray(value)[index])
            lines.append(' '.join(['delay', '_' if math.isnan(d) else fbits(d), sx([fbits(f) for f in freqs])]))
        else:
            bp = np.asarray(value)[(slice(None),) + index]
            lines.append(' '.join(['bandpass', sx([fbits(f) for f in freqs]), sx([fbits(f) for f in cal_freqs]),
                                   sx([cbits(z) for z in bp])]))

    def cont2(nodes):
        any_num = False
        for s, node in zip(starts, nodes):
            spec = cvals(node[1])
            got = np.asarray(corr[s])
            k = close(got, spec, 2e-5)
            if k is not None:
                return (f'{ptype} correction for {inp} in the segment starting at dump {s}: channel {k} is '
                        f'{got[k] if k >= 0 else got.shape}, expected {spec[k] if k >= 0 else spec.shape}'), False
            any_num = any_num or bool((~isnan_c(spec)).any())
        return None, any_num
    return lines, cont2


# ------------------------------------------------------------------ skipping / rejecting missing products

def gen_skipreject(rng):
    labels = rng.sample(['m000h', 'm000v', 'm001h', 'm001v', 'a9', 'a10'], rng.randint(1, 4))
    cps = [[rng.choice(labels), rng.choice(labels)] for _ in range(rng.randint(1, 4))]
    used = sorted({l for cp in cps for l in cp})
    streams = rng.choice([['l1'], ['l1', 'l2'], ['l2']])
    pool = [s + '.' + t for s in ['l1', 'l2'] for t in TYPES] + ['l1.UNKNOWN', 'nodot']
    names = [rng.choice(pool) for _ in range(rng.randint(0, 5))]
    have = []
    for n in sorted(set(names)):
        if '.' not in n or n.endswith('UNKNOWN') or n.split('.')[0] not in streams:
            continue
        r = rng.random()
        for inp in used:
            if r < 0.6 or (r < 0.85 and rng.random() < 0.6):
                have.append([n, inp])
    return dict(kind='skipreject', corrprods=cps, names=names, streams=streams, have=have, skip=rng.random() < 0.5)


def skipreject_line(c):
    return ' '.join(['products', sx([sx([sstr(a), sstr(b)]) for a, b in c['have']]),
                     sx([sx([sstr(a), sstr(b)]) for a, b in c['corrprods']]), sx([sstr(n) for n in c['names']]),
                     sx([sstr(s) for s in c['streams']]), '1' if c['skip'] else '0'])


def eval_skipreject(ctx, c, node):
    import dask
    from katdal.applycal import calc_correction
    from katdal.sensordata import SensorCache
    cache = SensorCache({}, timestamps=np.arange(1, dtype=float), dump_period=1.0)
    for n, inp in c['have']:
        stream, ptype = n.rsplit('.', 1)
        cache[f'Calibration/Corrections/{stream}/{ptype}/{inp}'] = np.ones((1, 1), dtype=np.complex64)
    cps = [tuple(cp) for cp in c['corrprods']]
    try:
        with dask.config.set(scheduler='synchronous'):
            finals, corr = calc_correction(((1,), (1,), (len(cps),)), cache, cps, list(c['names']), np.array([1.0]),
                                           {s: np.array([1.0]) for s in c['streams']}, c['skip'])
        impl = list(finals)
        if (corr is None) != (not impl):
            return f'calc_correction returned corrections={corr is not None} with final products {impl}', False
    except Exception as e:   # noqa: BLE001
        impl = 'raised ' + type(e).__name__
    ctx.tag('skipreject-skip' if c['skip'] else 'skipreject-strict')
    if isinstance(node, str):
        ctx.tag('skipreject-rejected')
        if not isinstance(impl, str):
            return (f'products {c["names"]} with sensors only for {sorted({n for n, _ in c["have"]})} and '
                    f'skip_missing_products={c["skip"]}: expected {node[2:]}, implementation applied {impl}'), False
        return None, True
    spec = [atom_str(a) for a in node[1]]
    if isinstance(impl, str):
        return (f'products {c["names"]} with skip_missing_products={c["skip"]}: implementation {impl}, expected the '
                f'complete products {spec} to be applied and the rest skipped'), False
    if impl != spec:
        return (f'products {c["names"]} with skip_missing_products={c["skip"]}: applied {impl}, expected {spec} '
                f'(products with a correction sensor for every input, in request order)'), False
    return None, bool(spec)


# ------------------------------------------------------------------ driver

GENS = [('names', gen_names, 0.28), ('stitch', gen_stitch, 0.12), ('cinterp', gen_cinterp, 0.12),
        ('gain', gen_gain, 0.16), ('bandpass', gen_bandpass, 0.1), ('delay', gen_delay, 0.02), ('delayhist', gen_delayhist, 0.03), ('flux', gen_flux, 0.05),
        ('pipeline', gen_pipeline, 0.08), ('skipreject', gen_skipreject, 0.04)]


def gen_case(rng):
    r = rng.random()
    acc = 0.0
    for _, g, w in GENS:
        acc += w
        if r < acc:
            return g(rng)
    return gen_names(rng)


def evaluate(ctx, cases):
    """two passes: collect request lines (building the implementation-side sensors), run the model once, judge"""
    plan = []
    lines = []
    for c in cases:
        k = c['kind']
        try:
            if k == 'names':
                item = ([names_line(c)], lambda nodes, c=c: eval_names(ctx, c, nodes[0]))
            elif k == 'stitch':
                item = ([stitch_line(c)], lambda nodes, c=c: eval_stitch(ctx, c, nodes[0]))
            elif k == 'cinterp':
                item = ([cinterp_line(c)], lambda nodes, c=c: eval_cinterp(ctx, c, nodes[0]))
            elif k == 'skipreject':
                item = ([skipreject_line(c)], lambda nodes, c=c: eval_skipreject(ctx, c, nodes[0]))
            elif k in ('gain', 'bandpass', 'delay', 'flux'):
                r = {'gain': eval_gain, 'bandpass': eval_bandpass, 'delay': eval_delay, 'flux': eval_flux}[k](ctx, c)
                item = None if r is None else ([r[0]], lambda nodes, f=r[1]: f(nodes[0]))
            elif k == 'pipeline':
                ls, f = eval_pipeline(ctx, c)
                item = (ls, f)
            elif k == 'delayhist':
                item = eval_delayhist(ctx, c)
            else:
                raise common.Broken('unknown case kind ' + k)
        except common.Broken:
            raise
        except Exception as e:   # noqa: BLE001
            import traceback
            item = ([], lambda nodes, e=e, tb=traceback.format_exc(): (
                f'implementation raised {type(e).__name__}: {str(e)[:160]} while building the {k} case', False))
        plan.append((c, item, len(lines)))
        if item is not None:
            lines.extend(item[0])
    replies = model(lines)
    bad = []
    for c, item, off in plan:
        if item is None:
            ctx.count(('skip', json.dumps(c, default=str)[:80]), False)
            continue
        nodes = replies[off:off + len(item[0])]
        try:
            v, nontriv = item[1](nodes)
        except common.Broken:
            raise
        except Exception as e:   # noqa: BLE001  (an exception of the code under test is a verdict, not a crash)
            v, nontriv = (f"the {c['kind']} case raised {type(e).__name__}: {str(e)[:160]} in the implementation where "
                          f'the model gives a value'), False
        ctx.count(tuple(item[0]) or json.dumps(c, default=str), nontriv,
                  sample={k: (v2 if not isinstance(v2, (list, dict)) or len(str(v2)) < 120 else '...')
                          for k, v2 in c.items()})
        if v:
            bad.append((c, v))
    return bad


def fails(ctx_proto, case):
    ctx = common.Ctx(ctx_proto.prop, ctx_proto.tier, ctx_proto.seed)
    try:
        return bool(evaluate(ctx, [case]))
    except Exception:   # noqa: BLE001
        return False


def shrink(ctx, case, what):
    cur = json.loads(json.dumps(case))
    k = cur['kind']
    if k == 'names' and cur['req'][0] == 'seq' and len(cur['req'][1]) > 1:
        keep = common.ddmin(cur['req'][1], lambda items: fails(ctx, dict(cur, req=['seq', items, cur['req'][2]])))
        cur = dict(cur, req=['seq', keep, cur['req'][2]])
    if k == 'cinterp' and len(cur['x']) > 1:
        keep = common.ddmin(cur['x'], lambda xs: fails(ctx, dict(cur, x=xs)))
        cur = dict(cur, x=keep)
    if k == 'gain' and len(cur['times']) > 1:
        idx = common.ddmin(list(range(len(cur['times']))), lambda ii: fails(ctx, dict(
            cur, times=[cur['times'][i] for i in ii], vals=[cur['vals'][i] for i in ii],
            shapes=[cur['shapes'][i] for i in ii])))
        cur = dict(cur, times=[cur['times'][i] for i in idx], vals=[cur['vals'][i] for i in idx],
                   shapes=[cur['shapes'][i] for i in idx])
    bad = evaluate(common.Ctx(ctx.prop, ctx.tier, ctx.seed), [cur])
    return cur, (bad[0][1] if bad else what)


def corpus_cases():
    d = os.path.join(common.VERIF, 'corpus', PROP)
    out = []
    if os.path.isdir(d):
        for nm in sorted(os.listdir(d)):
            out.append(json.load(open(os.path.join(d, nm)))['case'])
    return out


MATCHERS = {}


def run(ctx):
    ctx.matchers.update(MATCHERS)
    build = common.build_and_audit(PROP, ctx.tier)
    cases = corpus_cases() + [gen_case(ctx.rng) for _ in range(ctx.q(1200, 60000))]
    bad = evaluate(ctx, cases)
    if not bad and not build['build_ok']:
        bad = evaluate(ctx, [gen_case(ctx.rng) for _ in range(ctx.q(3000, 20000))])
    for c, v in bad:
        ctx.violation(c, v)
    ctx.assumptions = ['complex64 results are compared with a double-precision model within 2e-5 relative (the code '
                       'takes np.angle / np.abs of complex64 in float32), NaN pattern exactly',
                       'solution timestamps sit on dump mid-times, so the event dump of each solution is its timestamp',
                       'whitespace around comma-separated names is drawn from the characters Python and the model '
                       'both strip (space, \\t, \\n, \\r, \\x0b, \\x0c)']
    return common.finish(ctx, build, RULE, CHECKER, TRUSTED, shrink=lambda c, w: shrink(ctx, c, w))


def replay(ctx, rep):
    ctx.matchers.update(MATCHERS)
    build = common.build_and_audit(PROP, 'quick')
    for c, v in evaluate(ctx, [rep['case']]):
        ctx.violation(c, v)
    return common.finish(ctx, build, RULE, CHECKER, TRUSTED)
