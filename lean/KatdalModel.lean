-- Root of the `KatdalModel` library: models (import-free) and property theorems.
import KatdalModel.Np.Basic
import KatdalModel.Model.Index
import KatdalModel.Model.DaskIndexer
import KatdalModel.Model.LazyIndexer
