/-
  S3 transport model (property C09).

  Mirror of katdal/chunkstore_s3.py (`S3ChunkStore.request`, `_request`, `_raise_for_status`,
  `_verify_bucket`, `get_chunk`, `is_complete`, `_read_chunk`/`_read_object`, `decode_jwt`,
  `_BearerAuth`, `_auth_factory`) and of the part of urllib3's `Retry` that the code relies on
  (`increment`, `is_exhausted`, `is_retry`; urllib3 2.x, util/retry.py).

  Import-free apart from the Np layer so that it compiles into the `kd_c09` driver.

  How the two nested retry loops of the code appear here
  ------------------------------------------------------
  * inner loop: `HTTPAdapter.send` -> `urlopen(retries=adapter.max_retries)` answers a status in
    `status_forcelist` by `retries.increment(response=...)` and a recursive `urlopen`; when the
    increment exhausts the budget it raises `MaxRetryError(ResponseError)` which requests turns
    into `RetryError` and `error_map` into `S3ServerGlitch`.
  * outer loop: `S3ChunkStore.request` catches `ReadTimeoutError`/`ProtocolError` raised while the
    body is consumed, does `retries.increment(error=...)` on *its own* variable `retries`, and
    loops with `adapter.max_retries = retries`.  That variable is overwritten by
    `response.raw.retries.new()` (the adapter's remaining budget) only once a response object has
    been handed out by `session.request` *and* passed `_raise_for_status`.
  `Req.run` is one structural recursion over the scripted server answers with the pair
  `(b0, b)` as state: `b0` = the outer variable `retries` at the start of the current iteration,
  `b` = the budget inside the adapter (`response.raw.retries` once a response exists).
  With `stream=True` (chunks) the body is consumed after the hand-over, so read errors are
  charged to `b`; with `stream=False` (RDB files, bucket listings, `is_complete`) requests reads
  the body inside `session.request`, the hand-over never happens and read errors are charged
  to `b0`.
-/
import KatdalModel.Np.Basic

namespace S3

/-! ## Exceptions (most specific class that the code raises) -/

inductive Err
  | glitch        -- S3ServerGlitch      (is a ChunkNotFound)
  | notFound      -- S3ObjectNotFound    (is a ChunkNotFound)
  | unavailable   -- StoreUnavailable
  | auth          -- AuthorisationFailed (is a StoreUnavailable)
  | invalidToken  -- InvalidToken        (is an AuthorisationFailed)
  | badChunk      -- BadChunk
  | value         -- ValueError escaping `read_array` (not in `error_map`)
  deriving DecidableEq, Repr, Inhabited

def Err.name : Err → String
  | .glitch => "S3ServerGlitch" | .notFound => "S3ObjectNotFound" | .unavailable => "StoreUnavailable"
  | .auth => "AuthorisationFailed" | .invalidToken => "InvalidToken" | .badChunk => "BadChunk"
  | .value => "ValueError"

/-- `isinstance(e, ChunkNotFound)` -/
def Err.isChunkNotFound : Err → Bool
  | .glitch | .notFound => true
  | _ => false

/-- `isinstance(e, StoreUnavailable)` -/
def Err.isStoreUnavailable : Err → Bool
  | .unavailable | .auth | .invalidToken => true
  | _ => false

/-! ## urllib3 `Retry` budget -/

/-- The six counters of `urllib3.util.retry.Retry` (`None` = unlimited). -/
structure Budget where
  total : Option Int
  connect : Option Int
  read : Option Int
  redirect : Option Int
  status : Option Int
  other : Option Int
  deriving DecidableEq, Repr, Inhabited

/-- Which branch of `Retry.increment` an event takes. -/
inductive Cause
  | connect    -- `_is_connection_error`: ConnectTimeoutError
  | read       -- `_is_read_error`: ReadTimeoutError, ProtocolError
  | other      -- any other error
  | redirect   -- response with a redirect location
  | status     -- response whose status is in `status_forcelist`
  deriving DecidableEq, Repr

def dec (o : Option Int) : Option Int := o.map (· - 1)

/-- Counter arithmetic of `Retry.increment`: `total` always, plus the counter of the cause. -/
def Budget.bump (b : Budget) : Cause → Budget
  | .connect => { b with total := dec b.total, connect := dec b.connect }
  | .read => { b with total := dec b.total, read := dec b.read }
  | .other => { b with total := dec b.total, other := dec b.other }
  | .redirect => { b with total := dec b.total, redirect := dec b.redirect }
  | .status => { b with total := dec b.total, status := dec b.status }

def neg (o : Option Int) : Bool :=
  match o with
  | some v => v < 0
  | none => false

/-- `Retry.is_exhausted`: `min(x for x in counters if x) < 0` (the filter drops `None` and `0`,
    neither of which is negative, so this is "some counter is negative"). -/
def Budget.exhausted (b : Budget) : Bool :=
  neg b.total || neg b.connect || neg b.read || neg b.redirect || neg b.status || neg b.other

/-- `Retry.increment`: `none` = `MaxRetryError`. -/
def Budget.increment (b : Budget) (c : Cause) : Option Budget :=
  let b' := b.bump c
  if b'.exhausted then none else some b'

/-! ## Server answers -/

/-- One scripted answer of the S3 endpoint to one HTTP request. -/
inductive Fault
  | status (code : Nat)   -- HTTP status `code` with a small text body
  | truncate (k : Nat)    -- 200, full Content-Length, only `k` body bytes, then FIN
  | reset (k : Nat)       -- 200, full Content-Length, only `k` body bytes, then RST
  | stall                 -- 200, headers, then silence until the read timeout fires
  | ok                    -- 200 and the whole object
  deriving DecidableEq, Repr, Inhabited

/-- `_raise_for_status` with `ignored_errors = ()`. `none` = no exception. -/
def raiseForStatus (code : Nat) : Option Err :=
  if 400 ≤ code ∧ code < 600 then
    if code = 401 ∨ code = 403 then some .auth
    else if code = 404 then some .notFound
    else some .unavailable
  else none

/-- Outcome of the body reader (`read_array` behind `_DetectTruncation`, or `_read_object`). -/
inductive Rd (α : Type)
  | ok (a : α)
  | incomplete     -- IncompleteRead / socket timeout / reset: a urllib3 "read error"
  | invalid        -- ValueError (bad magic, bad header): escapes unmapped
  deriving Repr

inductive Mode
  | streaming   -- `stream=True`, body consumed by `process` (get_chunk -> `_read_chunk`)
  | buffered    -- `stream=False`, body consumed inside `session.request` (RDB, listing, is_complete)
  deriving DecidableEq, Repr

/-- Everything that is fixed during one `S3ChunkStore.request` call. -/
structure Req (α : Type) where
  forcelist : List Nat            -- `retries.status_forcelist`
  mode : Mode
  reader : List UInt8 → Rd α      -- `process`, as a function of the bytes that arrived
  body : List UInt8               -- the stored object

inductive Step (α : Type)
  | done (r : Except Err α)
  | again (b0 b : Budget)

namespace Req
variable {α : Type}

/-- `except (ReadTimeoutError, ProtocolError): retries = retries.increment(...)` on the budget
    `carried`; the next iteration starts with `adapter.max_retries = retries`. -/
def retryRead (carried : Budget) : Step α :=
  match carried.increment .read with
  | none => .done (.error .glitch)          -- MaxRetryError -> S3ServerGlitch
  | some b' => .again b' b'

/-- `return process(response)` after `retries = response.raw.retries.new()`. -/
def processed (r : Rd α) (b : Budget) : Step α :=
  match r with
  | .ok a => .done (.ok a)
  | .invalid => .done (.error .value)
  | .incomplete => retryRead b

/-- A 200 answer of which only the first `k` body bytes arrive (`k ≥ length` = all of it). -/
def onBody (rq : Req α) (b0 b : Budget) (k : Nat) (isStall : Bool) : Step α :=
  match rq.mode with
  | .buffered =>
    if k < rq.body.length then
      -- body is read inside `session.request`; no response object reaches `request()`
      if isStall then .done (.error .unavailable)   -- requests.ConnectionError(ReadTimeoutError)
      else retryRead b0                              -- ChunkedEncodingError -> ProtocolError
    else processed (rq.reader rq.body) b
  | .streaming => processed (rq.reader (rq.body.take k)) b

/-- One HTTP request/answer pair. -/
def step (rq : Req α) (b0 b : Budget) : Fault → Step α
  | .status code =>
    if code ∈ rq.forcelist then
      -- inside urlopen: `retries.is_retry(...)` -> `retries.increment(response=...)`
      match b.increment .status with
      | none => .done (.error .glitch)        -- MaxRetryError(ResponseError) -> RetryError
      | some b' => .again b0 b'
    else
      match raiseForStatus code with
      | some e => .done (.error e)
      | none => .done (.error .value)         -- non-error status with a non-object body: out of scope
  | .truncate k => rq.onBody b0 b k false
  | .reset k => rq.onBody b0 b k false
  | .stall => rq.onBody b0 b 0 true
  | .ok => rq.onBody b0 b rq.body.length false

/-- The request loop over the scripted answers `w`; once the script is used up the server
    answers normally.  Second component: number of HTTP requests that reached the server.
    (If the *stored* object itself is short every further attempt fails the same way until the
    read budget is gone: reported as glitch without counting those attempts.) -/
def run (rq : Req α) : Budget → Budget → List Fault → Nat → Except Err α × Nat
  | _, _, [], n =>
    (match rq.reader rq.body with
     | .ok a => .ok a
     | .invalid => .error .value
     | .incomplete => .error .glitch, n + 1)
  | b0, b, f :: w, n =>
    match rq.step b0 b f with
    | .done r => (r, n + 1)
    | .again b0' b' => rq.run b0' b' w (n + 1)

/-- `S3ChunkStore.request(...)`: `retries = retries.new()` then the loop. -/
def request (rq : Req α) (budget : Budget) (w : List Fault) : Except Err α × Nat :=
  rq.run budget budget w 0

end Req

/-! ## Spec side: what the property promises, stated by counting -/

/-- The counter a transient fault is charged to. -/
def causeOf : Fault → Cause
  | .status _ => .status
  | _ => .read

/-- Number of body bytes that arrive. -/
def delivered (len : Nat) : Fault → Nat
  | .truncate k => k
  | .reset k => k
  | .stall => 0
  | _ => len

/-- Transient alphabet: forcelisted status, or a 200 whose body stops early. -/
def transient (forcelist : List Nat) (len : Nat) : Fault → Bool
  | .status c => c ∈ forcelist
  | .truncate k => k < len
  | .reset k => k < len
  | .stall => 0 < len
  | .ok => false

/-- "The faults fit in the retry budget", exactly as urllib3 counts: walk the word, increment. -/
def fits : Budget → List Fault → Bool
  | _, [] => true
  | b, f :: w =>
    match b.increment (causeOf f) with
    | none => false
    | some b' => fits b' w

/-- Number of faults absorbed before the budget is exhausted. -/
def absorbed : Budget → List Fault → Nat
  | _, [] => 0
  | b, f :: w =>
    match b.increment (causeOf f) with
    | none => 0
    | some b' => absorbed b' w + 1

/-- Budget left after a word (meaningful when it fits). -/
def after : Budget → List Fault → Budget
  | b, [] => b
  | b, f :: w => after (b.bump (causeOf f)) w

/-- `n ≤ o` with `none` = unlimited. -/
def room (n : Nat) (o : Option Int) : Bool :=
  match o with
  | none => true
  | some v => decide ((n : Int) ≤ v)

def countStatus (w : List Fault) : Nat := (w.filter fun f => causeOf f == .status).length
def countRead (w : List Fault) : Nat := (w.filter fun f => causeOf f == .read).length

/-- Closed form of `fits` for budgets whose counters are not negative to begin with. -/
def fitsCount (b : Budget) (w : List Fault) : Bool :=
  room w.length b.total && room (countStatus w) b.status && room (countRead w) b.read

def nonneg (o : Option Int) : Bool :=
  match o with
  | none => true
  | some v => decide (0 ≤ v)

def Budget.wf (b : Budget) : Bool :=
  nonneg b.total && nonneg b.connect && nonneg b.read && nonneg b.redirect && nonneg b.status && nonneg b.other

/-- The documented rule, by counting only.  `nS`/`nR` = status / read faults seen so far.
    A transient fault that no longer fits (`total`, `status`, `read` of the configured budget `B`)
    gives "server glitch" at that request; otherwise the first non-transient answer decides
    (good answer = the data, 401/403 = auth, 404 = not found, other 4xx/5xx = unavailable).
    First component `none` stands for "exactly the stored object". -/
def specRun (forcelist : List Nat) (len : Nat) (B : Budget) :
    Nat → Nat → List Fault → Nat → Option Err × Nat
  | _, _, [], n => (none, n + 1)
  | nS, nR, f :: w, n =>
    if transient forcelist len f then
      let nS' := if causeOf f = .status then nS + 1 else nS
      let nR' := if causeOf f = .status then nR else nR + 1
      if room (nS' + nR') B.total && room nS' B.status && room nR' B.read then
        specRun forcelist len B nS' nR' w (n + 1)
      else (some .glitch, n + 1)
    else
      match f with
      | .status c => ((raiseForStatus c).orElse fun _ => some .value, n + 1)
      | _ => (none, n + 1)

/-- 200 answers whose body stops early. -/
def readFault (len : Nat) : Fault → Bool
  | .truncate k => k < len
  | .reset k => k < len
  | .stall => true
  | _ => false

/-- No forcelisted status answer is directly followed by a read fault (the situation in which
    `stream=False` requests forget the status retries already spent inside the adapter). -/
def carrySafe (forcelist : List Nat) (len : Nat) : List Fault → Bool
  | [] => true
  | f :: w =>
    (match f, w with
     | .status c, g :: _ => !(decide (c ∈ forcelist) && readFault len g)
     | _, _ => true) && carrySafe forcelist len w

/-! ## Bucket verification, get_chunk, is_complete -/

inductive BucketState
  | missing | empty | nonEmpty
  deriving DecidableEq, Repr

/-- What an honest server finally answers to `GET /bucket?max-keys=1`. -/
def listReply : BucketState → Fault
  | .missing => .status 404
  | _ => .ok

structure Store where
  verified : List String        -- `_verified_buckets`
  deriving Repr

structure Env where
  forcelist : List Nat
  budget : Budget               -- `store.retries`
  listing : List UInt8          -- the XML the listing would return (only its length matters)

/-- `_verify_bucket`: returns the error or the updated store, and the number of listing requests.
    `wl` = transient faults scripted on the listing itself. -/
def verifyBucket (env : Env) (st : Store) (bucket : String) (bs : BucketState) (wl : List Fault) :
    Except Err Store × Nat :=
  if bucket ∈ st.verified then (.ok st, 0)
  else
    let rq : Req Bool :=
      { forcelist := env.forcelist, mode := .buffered, body := env.listing,
        reader := fun _ => .ok (decide (bs = .nonEmpty)) }   -- `b'<Contents>' in response.content`
    match rq.request env.budget (wl ++ [listReply bs]) with
    | (.error .notFound, n) => (.error .unavailable, n)       -- bucket completely missing
    | (.error e, n) => (.error e, n)
    | (.ok hasContents, n) =>
      if hasContents then (.ok { st with verified := bucket :: st.verified }, n)
      else (.error .unavailable, n)                           -- empty bucket

structure ChunkResult (α : Type) where
  result : Except Err α
  store : Store
  chunkRequests : Nat
  listRequests : Nat

/-- `get_chunk`: chunk request (streaming); on 404 verify the bucket, then re-raise;
    finally the dtype/shape check `expect`. -/
def getChunk {α : Type} (env : Env) (st : Store) (bucket : String) (bs : BucketState)
    (reader : List UInt8 → Rd α) (expect : α → Bool) (body : List UInt8)
    (wc wl : List Fault) : ChunkResult α :=
  let rq : Req α := { forcelist := env.forcelist, mode := .streaming, reader := reader, body := body }
  match rq.request env.budget wc with
  | (.error .notFound, n) =>
    match verifyBucket env st bucket bs wl with
    | (.error e, m) => ⟨.error e, st, n, m⟩
    | (.ok st', m) => ⟨.error .notFound, st', n, m⟩
  | (.error e, n) => ⟨.error e, st, n, 0⟩
  | (.ok a, n) => ⟨if expect a then .ok a else .error .badChunk, st, n, 0⟩

/-- `is_complete`: `True` unless the request raised a ChunkNotFound; other errors propagate. -/
def isComplete (env : Env) (body : List UInt8) (w : List Fault) : Except Err Bool × Nat :=
  let rq : Req Unit := { forcelist := env.forcelist, mode := .buffered, reader := fun _ => .ok (), body := body }
  match rq.request env.budget w with
  | (.ok _, n) => (.ok true, n)
  | (.error e, n) => if e.isChunkNotFound then (.ok false, n) else (.error e, n)

/-- RDB download: `rdb_store.request('GET', rdb_url, process=_read_object)` (`stream=False`).
    The result is the byte string itself. -/
def rdbRequest (forcelist : List Nat) (body : List UInt8) : Req (List UInt8) :=
  { forcelist := forcelist, mode := .buffered, reader := fun bs => .ok bs, body := body }

/-! ## Bearer tokens -/

/-- `int(claims['exp'])` -/
inductive ExpClaim
  | absent                 -- KeyError -> never expires
  | int (v : Int)
  | nonInt                 -- ValueError / OverflowError
  deriving DecidableEq, Repr

structure Claims where
  exp : ExpClaim
  prefixes : Option (List String)     -- the 'prefix' claim
  deriving DecidableEq, Repr

/-- A token after lexing: what `decode_jwt` can observe of it. -/
structure Token where
  nparts : Nat                        -- `len(token.split('.'))`
  headerAlg : Option (Option String)  -- `none`: header/payload segment not base64url / header not a JSON object
                                      -- `some a`: `header.get('alg') = a`
  sigLen : Nat                        -- `len(encoded_signature)`
  sigDecodable : Bool                 -- signature segment is base64url
  claims : Option Claims              -- `none`: payload is not a JSON object
  deriving DecidableEq, Repr

/-- `decode_jwt(token)` at time `now` (seconds). -/
def decodeJwt (now : Int) (t : Token) : Except Err Claims :=
  if t.nparts ≠ 3 then .error .invalidToken
  else match t.headerAlg with
    | none => .error .invalidToken
    | some alg =>
      if alg = some "ES256" ∧ t.sigLen ≠ 86 then .error .invalidToken
      else if ¬ t.sigDecodable then .error .invalidToken
      else match t.claims with
        | none => .error .invalidToken
        | some c =>
          match c.exp with
          | .nonInt => .error .invalidToken
          | .absent => .ok c
          | .int v => if now > v then .error .invalidToken else .ok c

/-- `_BearerAuth.__init__` -/
def bearerInit (now : Int) (t : Token) : Except Err (List String) :=
  match decodeJwt now t with
  | .error e => .error e
  | .ok c =>
    match c.prefixes with
    | none => .error .invalidToken
    | some ps => .ok ps

/-- `_auth_factory(url, token, credentials)`; result `some prefixes` = a `_BearerAuth`. -/
def authFactory (now : Int) (scheme host : String) (token : Option Token) (creds : Bool) :
    Except Err (Option (List String)) :=
  match token with
  | some t =>
    if creds then .error .auth
    else if scheme ≠ "https" ∧ host ≠ "127.0.0.1" then .error .auth
    else (bearerInit now t).map some
  | none => .ok none

/-- `str.startswith` on character lists. -/
def startsWith (s p : String) : Bool := p.toList.isPrefixOf s.toList

/-- `_BearerAuth.__call__`: `path` is the URL path with leading slashes stripped. -/
def pathAllowed (prefixes : List String) (path : String) : Bool :=
  prefixes.any fun p => startsWith path p

/-- Constructing the store with a token and issuing one request for `path` with it. -/
def tokenRequest {α : Type} (now : Int) (scheme host : String) (token : Option Token) (creds : Bool)
    (path : String) (rq : Req α) (budget : Budget) (w : List Fault) : Except Err α × Nat :=
  match authFactory now scheme host token creds with
  | .error e => (.error e, 0)                  -- raised by `S3ChunkStore.__init__`
  | .ok none => rq.request budget w
  | .ok (some ps) =>
    if pathAllowed ps path then rq.request budget w
    else (.error .invalidToken, 0)             -- raised while the request is being prepared

end S3
