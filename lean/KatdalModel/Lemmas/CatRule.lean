/-
  C10 lemmas, part 2: the documented rule.
  `ruleFrom` (spec, dump by dump with `filter`) equals the one-pass formulation `ruleS`
  (`ruleFrom_eq_ruleS`), plus the facts about `ruleS` needed to bridge the window cut / initial
  value handling of `sensor_to_categorical` (`ruleS_skip`, `ruleS_map`).
-/
import KatdalModel.Lemmas.CatSepd
open Np

namespace Categorical

set_option linter.unusedSimpArgs false

variable {α β : Type}

def bestV (g : α → Bool) (c : α) : Option α := if g c = true then some c else none

/-- latest greedy value seen, starting from `b` -/
def bestFold (g : α → Bool) : Option α → List α → Option α
  | b, [] => b
  | b, v :: t => bestFold g (if g v = true then some v else b) t

theorem bestFold_eq (g : α → Bool) : ∀ (vs : List α) (b : Option α),
    bestFold g b vs = match (vs.filter g).getLast? with | some x => some x | none => b := by
  intro vs
  induction vs with
  | nil => intro b; rfl
  | cons v t ih =>
    intro b
    simp only [bestFold, ih]
    by_cases hv : g v = true
    · simp only [hv, if_true, List.filter_cons_of_pos]
      cases h : (t.filter g).getLast? with
      | none =>
        have : t.filter g = [] := by simpa using h
        simp [this]
      | some x =>
        have hne : t.filter g ≠ [] := by intro hh; simp [hh] at h
        simp [List.getLast?_cons, h]
    · have hv' : g v = false := by simpa using hv
      simp [hv']

theorem getLastD_cons2 (a c : α) (t : List α) : (a :: t).getLastD c = t.getLastD a := by
  cases t with
  | nil => rfl
  | cons b u => simp [List.getLastD]

theorem getLast_cons_eq (c : α) (vs : List α) : (c :: vs).getLast (by simp) = vs.getLastD c := by
  induction vs generalizing c with
  | nil => rfl
  | cons a t ih => rw [List.getLast_cons (by simp), ih, getLastD_cons2]

theorem winner_eq (g : α → Bool) (c : α) (vs : List α) :
    winner g c vs = (bestFold g (bestV g c) vs).getD (vs.getLastD c) := by
  have hlast : (c :: vs).getLast (by simp) = vs.getLastD c := getLast_cons_eq c vs
  unfold winner
  rw [bestFold_eq]
  by_cases hc : g c = true
  · simp only [List.filter_cons_of_pos hc, bestV, hc, if_true]
    cases h : (vs.filter g).getLast? with
    | none =>
      have : vs.filter g = [] := by simpa using h
      simp [this]
    | some x => simp [List.getLast?_cons, h]
  · have hc' : g c = false := by simpa using hc
    simp only [List.filter_cons_of_neg hc, bestV, hc', Bool.false_eq_true, if_false]
    cases h : (vs.filter g).getLast? with
    | none => simp [hlast]
    | some x => simp

theorem carry_eq (c : α) (vs : List α) : carry c vs = vs.getLastD c := by
  unfold carry
  exact getLast_cons_eq c vs

/-! ### facts about the one-pass rule -/

theorem ruleS_consume (g : α → Bool) (N p : Nat) : ∀ (G : List (Nat × α)) (R : List (Nat × α)) (best : Option α) (last : α),
    (∀ e ∈ G, e.1 ≤ p) →
    ruleS g N p best last (G ++ R) =
      ruleS g N p (bestFold g best (G.map (·.2))) ((G.map (·.2)).getLastD last) R := by
  intro G
  induction G with
  | nil => intro R best last _; rfl
  | cons e t ih =>
    intro R best last h
    obtain ⟨d, v⟩ := e
    have hd : d ≤ p := h (d, v) (List.mem_cons_self ..)
    simp only [List.cons_append, ruleS, hd, if_true, List.map_cons, bestFold]
    rw [ih R _ v (fun e he => h e (List.mem_cons_of_mem _ he)), getLastD_cons2]

theorem ruleS_boundary (g : α → Bool) (N p : Nat) (hp : p < N) (R : List (Nat × α)) (best : Option α) (last : α)
    (h : ∀ e ∈ R, p < e.1) :
    ruleS g N p best last R = best.getD last :: ruleS g N (p + 1) (bestV g last) last R := by
  cases R with
  | nil =>
    simp only [ruleS, hp, if_true]
    by_cases hp1 : p + 1 < N
    · simp only [hp1, if_true, bestV]
      congr 1
      have : N - p - 1 = (N - (p + 1) - 1) + 1 := by omega
      rw [this, List.replicate_succ]
      congr 1
      split <;> rfl
    · have : N - p - 1 = 0 := by omega
      simp [hp1, this]
  | cons e t =>
    obtain ⟨d, v⟩ := e
    have hd : p < d := h (d, v) (List.mem_cons_self ..)
    have hnd : ¬ d ≤ p := by omega
    simp only [ruleS, hnd, if_false]
    congr 1
    by_cases hd1 : d ≤ p + 1
    · have : d - p - 1 = 0 := by omega
      simp only [hd1, if_true, this, List.replicate_zero, List.nil_append]
      have hdp : d = p + 1 := by omega
      subst hdp
      simp only [bestV]
    · have hstep : d - p - 1 = (d - (p + 1) - 1) + 1 := by omega
      simp only [hd1, if_false, bestV]
      rw [hstep, List.replicate_succ]
      simp only [List.cons_append]
      congr 1
      split <;> rfl

/-- idle dumps: nothing happens between `p` and `q`, the value in effect is repeated -/
theorem ruleS_skip (g : α → Bool) (N : Nat) (v : α) (R : List (Nat × α)) :
    ∀ (k p : Nat), p + k ≤ N → (∀ e ∈ R, p + k ≤ e.1) →
    ruleS g N p (bestV g v) v R = List.replicate k v ++ ruleS g N (p + k) (bestV g v) v R := by
  intro k
  induction k with
  | zero => intro p _ _; simp
  | succ k ih =>
    intro p hN hR
    rw [ruleS_boundary g N p (by omega) R _ _ (fun e he => by have := hR e he; omega)]
    rw [ih (p + 1) (by omega) (fun e he => by have := hR e he; omega)]
    have : p + 1 + k = p + (k + 1) := by omega
    rw [this, List.replicate_succ]
    simp only [List.cons_append]
    congr 1
    unfold bestV
    split <;> rfl

theorem ruleS_map (f : α → β) (g : α → Bool) (g' : β → Bool) (N : Nat) :
    ∀ (l : List (Nat × α)) (p : Nat) (best : Option α) (last : α),
    g last = g' (f last) → (∀ e ∈ l, g e.2 = g' (f e.2)) →
    (ruleS g N p best last l).map f =
      ruleS g' N p (best.map f) (f last) (l.map (fun e => (e.1, f e.2))) := by
  intro l
  induction l with
  | nil =>
    intro p best last _ _
    simp only [ruleS, List.map_nil]
    split
    · cases best <;> simp
    · rfl
  | cons e t ih =>
    intro p best last hlast hl
    obtain ⟨d, v⟩ := e
    have hv : g v = g' (f v) := hl (d, v) (List.mem_cons_self ..)
    have ht : ∀ e ∈ t, g e.2 = g' (f e.2) := fun e he => hl e (List.mem_cons_of_mem _ he)
    simp only [ruleS, List.map_cons]
    split
    · rw [ih _ _ _ hv ht]
      congr 1
      rw [← hv]
      split <;> simp
    · simp only [List.map_cons, List.map_append, List.map_replicate]
      rw [ih _ _ _ hv ht]
      congr 1
      · cases best <;> simp
      · congr 2
        rw [← hv, ← hlast]
        split
        · simp
        · split <;> simp

/-! ### (C) the dump-by-dump spec is the one-pass rule -/

theorem ruleFrom_congr (g : α → Bool) (A B : List (Int × α)) : ∀ (k d : Nat) (c : α),
    (∀ d', d ≤ d' → d' < d + k → A.filter (fun e => e.1 = (d' : Int)) = B.filter (fun e => e.1 = (d' : Int))) →
    ruleFrom g A d k c = ruleFrom g B d k c := by
  intro k
  induction k with
  | zero => intro d c _; rfl
  | succ k ih =>
    intro d c h
    simp only [ruleFrom]
    rw [h d (Nat.le_refl _) (by omega)]
    congr 1
    exact ih (d + 1) _ (fun d' h1 h2 => h d' (by omega) (by omega))

/-- a list sorted by dump splits into the events of dump `d` and the later ones -/
theorem split_at_dump (d : Int) : ∀ (W : List (Int × α)), W.Pairwise (fun a b => a.1 ≤ b.1) → (∀ e ∈ W, d ≤ e.1) →
    ∃ G R, W = G ++ R ∧ (∀ e ∈ G, e.1 = d) ∧ (∀ e ∈ R, d < e.1) := by
  intro W
  induction W with
  | nil => intro _ _; exact ⟨[], [], rfl, by simp, by simp⟩
  | cons e t ih =>
    intro hs hge
    have hs' := List.pairwise_cons.mp hs
    by_cases he : e.1 = d
    · obtain ⟨G, R, hW, hG, hR⟩ := ih hs'.2 (fun x hx => hge x (List.mem_cons_of_mem _ hx))
      refine ⟨e :: G, R, by simp [hW], ?_, hR⟩
      intro x hx
      simp only [List.mem_cons] at hx
      rcases hx with rfl | hx
      · exact he
      · exact hG x hx
    · refine ⟨[], e :: t, rfl, by simp, ?_⟩
      intro x hx
      have hed : d < e.1 := by
        have := hge e (List.mem_cons_self ..)
        omega
      simp only [List.mem_cons] at hx
      rcases hx with rfl | hx
      · exact hed
      · have := hs'.1 x hx
        omega

def natPairs (W : List (Int × α)) : List (Nat × α) := W.map (fun e => (e.1.toNat, e.2))

/-- **(C)** on events sorted by dump and inside the dumps `d … d+k-1`, the dump-by-dump rule with
    `filter` is the one-pass rule -/
theorem ruleFrom_eq_ruleS (g : α → Bool) : ∀ (k d : Nat) (c : α) (W : List (Int × α)),
    W.Pairwise (fun a b => a.1 ≤ b.1) → (∀ e ∈ W, (d : Int) ≤ e.1 ∧ e.1 < ((d + k : Nat) : Int)) →
    ruleFrom g W d k c = ruleS g (d + k) d (bestV g c) c (natPairs W) := by
  intro k
  induction k with
  | zero =>
    intro d c W _ h
    cases W with
    | nil => simp [ruleFrom, natPairs, ruleS]
    | cons e t =>
      have := h e (List.mem_cons_self ..)
      omega
  | succ k ih =>
    intro d c W hs h
    obtain ⟨G, R, hW, hG, hR⟩ := split_at_dump (d : Int) W hs (fun e he => (h e he).1)
    subst hW
    have hfG : (G ++ R).filter (fun e => e.1 = (d : Int)) = G := by
      rw [List.filter_append]
      have h1 : G.filter (fun e => decide (e.1 = (d : Int))) = G := by
        apply List.filter_eq_self.mpr
        intro e he; simpa using hG e he
      have h2 : R.filter (fun e => decide (e.1 = (d : Int))) = [] := by
        apply List.filter_eq_nil_iff.mpr
        intro e he
        have := hR e he
        simp only [decide_eq_true_eq]
        omega
      rw [h1, h2, List.append_nil]
    simp only [ruleFrom, hfG]
    -- later dumps only see R
    have hcongr : ruleFrom g (G ++ R) (d + 1) k (carry c (G.map (·.2))) =
        ruleFrom g R (d + 1) k (carry c (G.map (·.2))) := by
      apply ruleFrom_congr
      intro d' h1 _
      rw [List.filter_append]
      have : G.filter (fun e => decide (e.1 = (d' : Int))) = [] := by
        apply List.filter_eq_nil_iff.mpr
        intro e he
        have := hG e he
        simp only [decide_eq_true_eq]
        omega
      rw [this, List.nil_append]
    have hsR : R.Pairwise (fun a b => a.1 ≤ b.1) := (List.pairwise_append.mp hs).2.1
    have hR' : ∀ e ∈ R, ((d + 1 : Nat) : Int) ≤ e.1 ∧ e.1 < ((d + 1 + k : Nat) : Int) := by
      intro e he
      have h1 := hR e he
      have h2 := (h e (List.mem_append_right _ he)).2
      constructor <;> omega
    rw [hcongr, ih (d + 1) _ R hsR hR']
    -- the one-pass rule consumes G, then crosses the boundary
    have hGn : ∀ e ∈ natPairs G, e.1 ≤ d := by
      intro e he
      simp only [natPairs, List.mem_map] at he
      obtain ⟨x, hx, rfl⟩ := he
      have := hG x hx
      simp only
      omega
    have hRn : ∀ e ∈ natPairs R, d < e.1 := by
      intro e he
      simp only [natPairs, List.mem_map] at he
      obtain ⟨x, hx, rfl⟩ := he
      have := hR x hx
      simp only
      omega
    have hnp : natPairs (G ++ R) = natPairs G ++ natPairs R := by simp [natPairs]
    have hvals : (natPairs G).map (·.2) = G.map (·.2) := by simp [natPairs]
    rw [hnp, ruleS_consume g (d + (k + 1)) d (natPairs G) (natPairs R) _ _ hGn, hvals]
    rw [ruleS_boundary g (d + (k + 1)) d (by omega) (natPairs R) _ _ hRn]
    rw [winner_eq, carry_eq]
    have : d + 1 + k = d + (k + 1) := by omega
    rw [this]

end Categorical
