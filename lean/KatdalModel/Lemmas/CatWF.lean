/-
  C11 lemmas, part 4: `add`, `remove`, `add_unmatched`, `align` keep a series well-formed.
-/
import KatdalModel.Lemmas.CatPartition
open Np

namespace Categorical

set_option linter.unusedSimpArgs false
set_option linter.unusedSectionVars false

variable {V : Type} [DecidableEq V]

theorem take_takeWhile_length {α : Type} (p : α → Bool) : ∀ (l : List α), l.take (l.takeWhile p).length = l.takeWhile p := by
  intro l
  induction l with
  | nil => rfl
  | cons a t ih =>
    simp only [List.takeWhile_cons]
    split
    · simp [ih]
    · simp

theorem drop_takeWhile_length {α : Type} (p : α → Bool) : ∀ (l : List α), l.drop (l.takeWhile p).length = l.dropWhile p := by
  intro l
  induction l with
  | nil => rfl
  | cons a t ih =>
    simp only [List.takeWhile_cons, List.dropWhile_cons]
    split
    · simp [ih]
    · simp

theorem mem_takeWhile_imp' {α : Type} (p : α → Bool) : ∀ (l : List α) (x : α), x ∈ l.takeWhile p → p x = true := by
  intro l
  induction l with
  | nil => intro x h; simp at h
  | cons a t ih =>
    intro x h
    simp only [List.takeWhile_cons] at h
    split at h
    · rcases List.mem_cons.mp h with rfl | h
      · assumption
      · exact ih x h
    · simp at h

theorem dropWhile_head_not {α : Type} (p : α → Bool) : ∀ (l : List α) (x : α) (t : List α),
    l.dropWhile p = x :: t → p x = false := by
  intro l
  induction l with
  | nil => intro x t h; simp at h
  | cons a r ih =>
    intro x t h
    simp only [List.dropWhile_cons] at h
    split at h
    · exact ih x t h
    · rename_i hp
      simp only [List.cons.injEq] at h
      rw [← h.1]
      simpa using hp

theorem indexOf?_some (l : List V) (v : V) (i : Nat) (h : indexOf? l v = some i) : i < l.length ∧ l[i]? = some v := by
  simp only [indexOf?] at h
  split at h
  · rename_i hm
    simp only [Option.some.injEq] at h
    subst h
    exact ⟨List.idxOf_lt_length_iff.mpr hm, getElem?_idxOf_of_mem l v hm⟩
  · simp at h

theorem indexOf?_none (l : List V) (v : V) (h : indexOf? l v = none) : v ∉ l := by
  simp only [indexOf?] at h
  split at h
  · simp at h
  · assumption

/-- the positions and boundaries produced by `add` -/
theorem add_shape (ev : List Nat) (e : Nat) (hs : ev.Pairwise (· < ·)) (hne : ev ≠ []) (he : e < ev.getLastD 0) :
    let ei := (ev.takeWhile (fun x => decide (x < e))).length
    ∃ x, getNat ev ei = .ok x ∧ e ≤ x ∧ ei < ev.length ∧
      (∀ y ∈ ev.take ei, y < e) ∧
      (∀ y ∈ ev.drop (if x = e then ei + 1 else ei), e < y) ∧
      (x = e → ei + 1 < ev.length) := by
  intro ei
  have htake : ev.take ei = ev.takeWhile (fun x => decide (x < e)) := take_takeWhile_length _ ev
  have hdrop : ev.drop ei = ev.dropWhile (fun x => decide (x < e)) := drop_takeWhile_length _ ev
  have hlastmem : ev.getLastD 0 ∈ ev := by
    rw [List.getLastD_eq_getLast?, List.getLast?_eq_some_getLast hne]
    exact List.getLast_mem hne
  -- the last element is not below e, so the prefix is proper
  have hlt : ei < ev.length := by
    by_cases hlt : ei < ev.length
    · exact hlt
    · exfalso
      have hall : ev.takeWhile (fun x => decide (x < e)) = ev := by
        rw [← htake]; exact List.take_of_length_le (by omega)
      have : ev.getLastD 0 ∈ ev.takeWhile (fun x => decide (x < e)) := by rw [hall]; exact hlastmem
      have := mem_takeWhile_imp' _ _ _ this
      simp only [decide_eq_true_eq] at this
      omega
  have hx : ev[ei]? = some (ev[ei]'hlt) := List.getElem?_eq_getElem hlt
  refine ⟨ev[ei]'hlt, by simp [getNat, hx], ?_, hlt, ?_, ?_, ?_⟩
  · -- first element of the dropWhile does not satisfy the predicate
    have hd : ev.drop ei = ev[ei] :: ev.drop (ei + 1) := List.drop_eq_getElem_cons hlt
    rw [hdrop] at hd
    have := dropWhile_head_not _ _ _ _ hd
    simp only [decide_eq_false_iff_not] at this
    omega
  · intro y hy
    rw [htake] at hy
    have := mem_takeWhile_imp' _ _ _ hy
    simpa using this
  · have hd : ev.drop ei = ev[ei] :: ev.drop (ei + 1) := List.drop_eq_getElem_cons hlt
    have hge : e ≤ ev[ei] := by
      have hd' := hd
      rw [hdrop] at hd'
      have := dropWhile_head_not _ _ _ _ hd'
      simp only [decide_eq_false_iff_not] at this
      omega
    have hsd : (ev.drop ei).Pairwise (· < ·) := List.Pairwise.sublist (List.drop_sublist _ _) hs
    rw [hd] at hsd
    have hrest := (List.pairwise_cons.mp hsd).1
    intro y hy
    split at hy
    · rename_i heq
      have := hrest y hy
      omega
    · rename_i hneq
      rw [hd] at hy
      rcases List.mem_cons.mp hy with rfl | hy
      · omega
      · have := hrest y hy; omega
  · intro heq
    by_cases h1 : ei + 1 < ev.length
    · exact h1
    · exfalso
      have hlast : ev.getLastD 0 = ev[ei] := by
        have hei : ei = ev.length - 1 := by omega
        rw [List.getLastD_eq_getLast?, List.getLast?_eq_getElem?]
        simp [← hei, hx]
      omega

theorem getLastD_append_of_ne {α : Type} (a b : List α) (d : α) (hb : b ≠ []) : (a ++ b).getLastD d = b.getLastD d := by
  rw [List.getLastD_eq_getLast?, List.getLastD_eq_getLast?, List.getLast?_append]
  cases hbl : b.getLast? with
  | none => simp [List.getLast?_eq_none_iff] at hbl; exact absurd hbl hb
  | some x => simp

theorem getLastD_drop (l : List Nat) (k : Nat) (hk : k < l.length) : (l.drop k).getLastD 0 = l.getLastD 0 := by
  have : l = l.take k ++ l.drop k := (List.take_append_drop k l).symm
  conv => rhs; rw [this]
  rw [getLastD_append_of_ne]
  intro h0
  have := congrArg List.length h0
  simp at this
  omega

/-- the record built by `add` from a well-formed series is well-formed -/
theorem add_core (c : Cat V) (h : c.WF) (e : Nat) (he : e < c.numDumps) (uniq' : List V) (vi : Nat)
    (hvi : vi < uniq'.length) (hext : c.uniq.length ≤ uniq'.length) (hnd : uniq'.Nodup) :
    ∃ x, getNat c.ev (c.ev.takeWhile (fun y => decide (y < e))).length = .ok x ∧
      let ei := (c.ev.takeWhile (fun y => decide (y < e))).length
      let after := if x = e then ei + 1 else ei
      let c' : Cat V := { uniq := uniq', idx := c.idx.take ei ++ [vi] ++ c.idx.drop after,
                          ev := c.ev.take ei ++ [e] ++ c.ev.drop after }
      c'.WF ∧ c'.numDumps = c.numDumps := by
  have hs := strictInc_pairwise _ h.1
  have hne : c.ev ≠ [] := by intro h0; have := h.2.1; rw [h0] at this; simp at this
  obtain ⟨x, hx, hxe, hlt, htake, hdrop, hxeq⟩ := add_shape c.ev e hs hne he
  refine ⟨x, hx, ?_⟩
  intro ei after c'
  have hlen := h.2.1
  have hafter : after ≤ c.idx.length := by
    simp only [after]
    split
    · rename_i heq; have := hxeq heq; omega
    · omega
  have hafter' : after < c.ev.length := by omega
  refine ⟨⟨?_, ?_, ?_, hnd⟩, ?_⟩
  · apply pairwise_lt_strictInc
    simp only [c']
    rw [List.pairwise_append]
    refine ⟨?_, List.Pairwise.sublist (List.drop_sublist _ _) hs, ?_⟩
    · rw [List.pairwise_append]
      refine ⟨List.Pairwise.sublist (List.take_sublist _ _) hs, by simp, ?_⟩
      intro a ha b hb
      simp only [List.mem_singleton] at hb
      subst hb
      exact htake a ha
    · intro a ha b hb
      have hb' := hdrop b hb
      simp only [List.mem_append, List.mem_singleton] at ha
      rcases ha with ha | rfl
      · have := htake a ha; omega
      · exact hb'
  · simp only [c', List.length_append, List.length_take, List.length_drop, List.length_cons, List.length_nil]
    omega
  · intro i hi
    simp only [c', List.mem_append, List.mem_singleton] at hi
    show i < uniq'.length
    rcases hi with (hi | rfl) | hi
    · have := h.2.2.1 i (List.mem_of_mem_take hi); omega
    · exact hvi
    · have := h.2.2.1 i (List.mem_of_mem_drop hi); omega
  · simp only [c', Cat.numDumps]
    rw [getLastD_append_of_ne _ _ _ (by
      intro h0
      have := congrArg List.length h0
      simp at this
      omega)]
    exact getLastD_drop c.ev after hafter'

/-- **add keeps the series well-formed** and keeps the number of dumps, for every event inside the
    series (`event < number of dumps`) and every value (new, known, or `None` = duplicate) -/
theorem add_wf (c : Cat V) (h : c.WF) (e : Nat) (value : Option V) (he : e < c.numDumps) (c' : Cat V)
    (hadd : c.add e value = .ok c') : c'.WF ∧ c'.numDumps = c.numDumps := by
  simp only [Cat.add] at hadd
  cases value with
  | some v =>
    cases hio : indexOf? c.uniq v with
    | some i =>
      obtain ⟨hi1, _⟩ := indexOf?_some c.uniq v i hio
      obtain ⟨x, hx, hres⟩ := add_core c h e he c.uniq i hi1 (Nat.le_refl _) h.2.2.2
      simp only [hio, bind, Except.bind, pure, Except.pure, hx, Except.ok.injEq] at hadd
      subst hadd
      exact hres
    | none =>
      have hnm := indexOf?_none c.uniq v hio
      have hnd : (c.uniq ++ [v]).Nodup := by
        rw [List.nodup_append]
        refine ⟨h.2.2.2, by simp, ?_⟩
        intro a ha b hb
        simp only [List.mem_singleton] at hb
        subst hb
        intro hab; subst hab; exact hnm ha
      obtain ⟨x, hx, hres⟩ := add_core c h e he (c.uniq ++ [v]) c.uniq.length (by simp) (by simp) hnd
      simp only [hio, bind, Except.bind, pure, Except.pure, hx, Except.ok.injEq] at hadd
      subst hadd
      exact hres
  | none =>
    cases hl : c.lookup1 (e : Int) with
    | error err => simp [hl, bind, Except.bind] at hadd
    | ok i =>
      have hi1 : i < c.uniq.length := h.2.2.1 i (lookup1_mem c _ i hl)
      obtain ⟨x, hx, hres⟩ := add_core c h e he c.uniq i hi1 (Nat.le_refl _) h.2.2.2
      simp only [hl, bind, Except.bind, pure, Except.pure, hx, Except.ok.injEq] at hadd
      subst hadd
      exact hres

/-! ### remove -/

theorem maskSelect_sublist {α : Type} : ∀ (l : List α) (m : List Bool), (maskSelect l m).Sublist l := by
  intro l
  induction l with
  | nil => intro m; cases m <;> simp [maskSelect]
  | cons a t ih =>
    intro m
    cases m with
    | nil => simp [maskSelect]
    | cons b u =>
      cases b with
      | true => simp only [maskSelect]; exact List.Sublist.cons_cons _ (ih u)
      | false => simp only [maskSelect]; exact List.Sublist.cons _ (ih u)

theorem maskSelect_length {α β : Type} : ∀ (l : List α) (l' : List β) (m : List Bool), l.length = l'.length →
    (maskSelect l m).length = (maskSelect l' m).length := by
  intro l
  induction l with
  | nil => intro l' m h; cases l' with
    | nil => cases m <;> simp [maskSelect]
    | cons b u => simp at h
  | cons a t ih =>
    intro l' m h
    cases l' with
    | nil => simp at h
    | cons b u =>
      cases m with
      | nil => simp [maskSelect]
      | cons x xs =>
        cases x with
        | true => simp only [maskSelect, List.length_cons]; rw [ih u xs (by simpa using h)]
        | false => simp only [maskSelect]; exact ih u xs (by simpa using h)

theorem maskSelect_self_mem (p : Nat → Bool) : ∀ (l : List Nat) (x : Nat), x ∈ maskSelect l (l.map p) → x ∈ l ∧ p x = true := by
  intro l
  induction l with
  | nil => intro x h; simp [maskSelect] at h
  | cons a t ih =>
    intro x h
    cases hp : p a with
    | true =>
      simp only [List.map_cons, hp, maskSelect, List.mem_cons] at h
      rcases h with rfl | h
      · exact ⟨List.mem_cons_self .., hp⟩
      · exact ⟨List.mem_cons_of_mem _ (ih x h).1, (ih x h).2⟩
    | false =>
      simp only [List.map_cons, hp, maskSelect] at h
      exact ⟨List.mem_cons_of_mem _ (ih x h).1, (ih x h).2⟩

/-- **remove keeps the series well-formed** and keeps the number of dumps (the value is removed
    from the unique values, remaining indices are renumbered, boundaries are a subset of the old) -/
theorem remove_wf (c : Cat V) (h : c.WF) (v : V) (c' : Cat V) (hrem : c.remove v = .ok c') :
    c'.WF ∧ c'.numDumps = c.numDumps ∧ c'.ev.Sublist c.ev := by
  simp only [Cat.remove] at hrem
  cases hio : indexOf? c.uniq v with
  | none =>
    simp only [hio, pure, Except.pure, Except.ok.injEq] at hrem
    subst hrem
    exact ⟨h, rfl, List.Sublist.refl _⟩
  | some k =>
    obtain ⟨hk, _⟩ := indexOf?_some c.uniq v k hio
    have hlen := h.2.1
    have hne : c.ev ≠ [] := by intro h0; rw [h0] at hlen; simp at hlen
    simp only [hio, hlen, ne_eq, not_true_eq_false, if_false, pure, Except.pure, Except.ok.injEq] at hrem
    subst hrem
    have hs := strictInc_pairwise _ h.1
    have hdl : c.ev = c.ev.dropLast ++ [c.ev.getLastD 0] := by
      rw [List.getLastD_eq_getLast?, List.getLast?_eq_some_getLast hne]
      exact (List.dropLast_concat_getLast hne).symm
    have hsub : (maskSelect c.ev.dropLast (c.idx.map (fun i => decide (i ≠ k))) ++ [c.ev.getLastD 0]).Sublist c.ev := by
      conv => rhs; rw [hdl]
      exact List.Sublist.append (maskSelect_sublist _ _) (List.Sublist.refl _)
    refine ⟨⟨pairwise_lt_strictInc _ (List.Pairwise.sublist hsub hs), ?_, ?_, ?_⟩, ?_, hsub⟩
    · simp only [List.length_append, List.length_map, List.length_cons, List.length_nil]
      rw [maskSelect_length c.ev.dropLast c.idx _ (by simp; omega)]
    · intro i hi
      simp only [List.mem_map] at hi
      obtain ⟨j, hj, rfl⟩ := hi
      obtain ⟨hjmem, hjk⟩ := maskSelect_self_mem (fun i => decide (i ≠ k)) c.idx j hj
      have hjlt := h.2.2.1 j hjmem
      simp only [decide_eq_true_eq] at hjk
      rw [List.length_eraseIdx]
      simp only [hk, if_true]
      split <;> omega
    · exact List.Nodup.sublist (List.eraseIdx_sublist _ _) h.2.2.2
    · simp only [Cat.numDumps]
      rw [getLastD_append_of_ne _ _ _ (by simp)]
      simp [List.getLastD]

/-! ### add_unmatched -/

theorem lookup1_lt_numDumps (c : Cat V) (h : c.WF) (d : Nat) (i : Nat) (hl : c.lookup1 (d : Int) = .ok i) :
    d < c.numDumps := by
  have := lookup1_perDumpIdx c h d
  rw [hl] at this
  by_cases hd : d < c.numDumps
  · exact hd
  · exfalso
    have hlen : c.perDumpIdx.length = c.numDumps := by
      have := perDump_length c h
      rw [perDump_eq_idx] at this
      simpa using this
    rw [List.getElem?_eq_none (by omega)] at this
    simp at this

/-- **add_unmatched keeps the series well-formed** with the same number of dumps -/
theorem addUnmatched_wf (c : Cat V) (h : c.WF) (segs : List Nat) (dist : Nat) (c' : Cat V)
    (hau : c.addUnmatched segs dist = .ok c') : c'.WF ∧ c'.numDumps = c.numDumps := by
  simp only [Cat.addUnmatched] at hau
  split at hau
  · simp at hau
  · generalize segs.filter _ = un at hau
    have key : ∀ (l : List Nat) (a r : Cat V), a.WF → a.numDumps = c.numDumps →
        l.foldlM (fun (acc : Cat V) s =>
          match acc.add s none with
          | Except.ok c' => (pure c' : Except Err (Cat V))
          | Except.error Err.index => pure acc
          | Except.error e => Except.error e) a = Except.ok r → r.WF ∧ r.numDumps = c.numDumps := by
      intro l
      induction l with
      | nil => intro a r ha hn hf; simp only [List.foldlM, pure, Except.pure, Except.ok.injEq] at hf; subst hf; exact ⟨ha, hn⟩
      | cons s t ih =>
        intro a r ha hn hf
        simp only [List.foldlM, bind, Except.bind] at hf
        cases hadd : a.add s none with
        | ok a' =>
          simp only [hadd, pure, Except.pure] at hf
          -- the add succeeded, hence `s` is a dump of the series
          have hs : s < a.numDumps := by
            simp only [Cat.add] at hadd
            cases hl : a.lookup1 (s : Int) with
            | error e => simp [hl, bind, Except.bind] at hadd
            | ok i => exact lookup1_lt_numDumps a ha s i hl
          obtain ⟨hw, hn'⟩ := add_wf a ha s none hs a' hadd
          exact ih a' r hw (by rw [hn', hn]) hf
        | error e =>
          cases e with
          | index =>
            simp only [hadd, pure, Except.pure] at hf
            exact ih a r ha hn hf
          | value => simp [hadd] at hf
          | type => simp [hadd] at hf
          | key => simp [hadd] at hf
          | notImpl => simp [hadd] at hf
          | other => simp [hadd] at hf
    exact key un c c' h rfl hau

/-! ### align -/

theorem argminFirst_lt : ∀ (l : List Nat), l ≠ [] → argminFirst l < l.length := by
  intro l hne
  cases l with
  | nil => exact absurd rfl hne
  | cons a t =>
    have key : ∀ (t : List Nat) (best bv nxt : Nat), best < nxt →
        (t.foldl (fun (acc : Nat × Nat × Nat) x =>
          if x < acc.2.1 then (acc.2.2, x, acc.2.2 + 1) else (acc.1, acc.2.1, acc.2.2 + 1)) (best, bv, nxt)).1
          < nxt + t.length := by
      intro t
      induction t with
      | nil => intro best bv nxt h; simpa using h
      | cons x u ih =>
        intro best bv nxt h
        simp only [List.foldl_cons, List.length_cons]
        split
        · have := ih nxt x (nxt + 1) (by omega); omega
        · have := ih best bv (nxt + 1) (by omega); omega
    have := key t 0 a 1 (by omega)
    simp only [argminFirst, List.length_cons]
    omega

theorem takeIdx_mem {α : Type} (l : List α) : ∀ (idxs : List Nat) (r : List α), takeIdx l idxs = .ok r → ∀ x ∈ r, x ∈ l := by
  intro idxs
  induction idxs with
  | nil => intro r h x hx; simp only [takeIdx, pure, Except.pure, Except.ok.injEq] at h; subst h; simp at hx
  | cons i t ih =>
    intro r h x hx
    simp only [takeIdx, bind, Except.bind] at h
    cases hg : getNat l i with
    | error e => simp [hg] at h
    | ok v =>
      cases ht : takeIdx l t with
      | error e => simp [hg, ht] at h
      | ok vs =>
        simp only [hg, ht, pure, Except.pure, Except.ok.injEq] at h
        subst h
        rcases List.mem_cons.mp hx with rfl | hx
        · simp only [getNat] at hg
          split at hg
          · rename_i w hw; simp only [Except.ok.injEq] at hg; subst hg; exact List.mem_of_getElem? hw
          · simp at hg
        · exact ih vs ht x hx

theorem nearest_mem (segs : List Nat) (hne : segs ≠ []) (e : Nat) : nearest segs e ∈ segs := by
  have hlt : argminFirst (segs.map (absDiff e)) < segs.length := by
    have := argminFirst_lt (segs.map (absDiff e)) (by simpa using hne)
    simpa using this
  simp only [nearest, List.getD, List.getElem?_eq_getElem hlt, Option.getD_some]
  exact List.getElem_mem hlt

/-- **alignment only moves boundaries onto the given segment starts**: every boundary of the
    aligned series is one of the segment starts (for any series and any segments) -/
theorem align_boundaries (c : Cat V) (segs : List Nat) (c' : Cat V) (h : c.align segs = .ok c') :
    ∀ e ∈ c'.ev, e ∈ segs := by
  simp only [Cat.align] at h
  split at h
  · simp at h
  · rename_i hne
    have hmoved : ∀ x ∈ c.ev.map (nearest segs), x ∈ segs := by
      intro x hx
      simp only [List.mem_map] at hx
      obtain ⟨e, _, rfl⟩ := hx
      exact nearest_mem segs hne e
    split at h
    · simp at h
    · split at h
      · simp at h
      · split at h
        · simp at h
        · split at h
          · simp at h
          · rename_i evs hevs
            split at h
            · simp at h
            · rename_i last hlast
              simp only [Except.ok.injEq] at h
              subst h
              intro e he
              simp only [List.mem_append, List.mem_singleton] at he
              rcases he with he | rfl
              · exact hmoved e (takeIdx_mem _ _ _ hevs e he)
              · exact hmoved _ (List.mem_of_getLast? hlast)

/-- the entries standing at the positions where `moved` rises -/
def keptRise {α : Type} : List Nat → List α → List α
  | a :: b :: t, v :: vs => if a < b then v :: keptRise (b :: t) vs else keptRise (b :: t) vs
  | _, _ => []

theorem takeIdx_rises {α : Type} : ∀ (moved : List Nat) (pre l : List α), moved.length ≤ l.length + 1 →
    takeIdx (pre ++ l) (risesFrom pre.length moved) = .ok (keptRise moved l) := by
  intro moved
  induction moved with
  | nil => intro pre l _; simp [risesFrom, keptRise, takeIdx, pure, Except.pure]
  | cons a t ih =>
    intro pre l hlen
    cases t with
    | nil => cases l <;> simp [risesFrom, keptRise, takeIdx, pure, Except.pure]
    | cons b u =>
      cases l with
      | nil => simp at hlen
      | cons v vs =>
        have := ih (pre ++ [v]) vs (by simp at hlen ⊢; omega)
        simp only [List.append_assoc, List.singleton_append, List.length_append, List.length_cons,
          List.length_nil, Nat.zero_add] at this
        simp only [risesFrom, keptRise]
        split
        · simp only [takeIdx, getNat, List.getElem?_append_right (Nat.le_refl _), Nat.sub_self,
            List.getElem?_cons_zero, bind, Except.bind, this, pure, Except.pure]
        · exact this

theorem keptRise_length {α β : Type} : ∀ (moved : List Nat) (l : List α) (l' : List β),
    moved.length ≤ l.length + 1 → moved.length ≤ l'.length + 1 →
    (keptRise moved l).length = (keptRise moved l').length := by
  intro moved
  induction moved with
  | nil => intro l l' _ _; simp [keptRise]
  | cons a t ih =>
    intro l l' h1 h2
    cases t with
    | nil => cases l <;> cases l' <;> simp [keptRise]
    | cons b u =>
      cases l with
      | nil => simp at h1
      | cons v vs =>
        cases l' with
        | nil => simp at h2
        | cons w ws =>
          have := ih vs ws (by simp at h1 ⊢; omega) (by simp at h2 ⊢; omega)
          simp only [keptRise]
          split <;> simp [this]

theorem keptRise_mem {α : Type} : ∀ (moved : List Nat) (l : List α) (x : α), x ∈ keptRise moved l → x ∈ l := by
  intro moved
  induction moved with
  | nil => intro l x h; simp [keptRise] at h
  | cons a t ih =>
    intro l x h
    cases t with
    | nil => cases l <;> simp [keptRise] at h
    | cons b u =>
      cases l with
      | nil => simp [keptRise] at h
      | cons v vs =>
        simp only [keptRise] at h
        split at h
        · rcases List.mem_cons.mp h with rfl | h
          · exact List.mem_cons_self ..
          · exact List.mem_cons_of_mem _ (ih vs x h)
        · exact List.mem_cons_of_mem _ (ih vs x h)

/-- kept boundaries plus the final one are strictly increasing when the moved boundaries are
    non-decreasing -/
theorem keptRise_strict : ∀ (moved : List Nat), moved.Pairwise (· ≤ ·) →
    (keptRise moved moved ++ [moved.getLastD 0]).Pairwise (· < ·) ∧
    ∀ x ∈ keptRise moved moved ++ [moved.getLastD 0], moved.headD 0 ≤ x := by
  intro moved
  induction moved with
  | nil => intro _; simp [keptRise, List.getLastD]
  | cons a t ih =>
    intro hs
    cases t with
    | nil => simp [keptRise, List.getLastD]
    | cons b u =>
      have hs' := List.pairwise_cons.mp hs
      have hab : a ≤ b := hs'.1 b (List.mem_cons_self ..)
      obtain ⟨ih1, ih2⟩ := ih hs'.2
      have hk : keptRise (a :: b :: u) (a :: b :: u) =
          if a < b then a :: keptRise (b :: u) (b :: u) else keptRise (b :: u) (b :: u) := by
        simp only [keptRise]
      simp only [List.headD_cons] at ih2 ⊢
      rw [hk, getLastD_cons_cons]
      split
      · rename_i hlt
        refine ⟨?_, ?_⟩
        · simp only [List.cons_append]
          refine List.pairwise_cons.mpr ⟨fun x hx => by have := ih2 x hx; omega, ih1⟩
        · intro x hx
          simp only [List.cons_append, List.mem_cons] at hx
          rcases hx with rfl | hx
          · omega
          · have := ih2 x hx; omega
      · exact ⟨ih1, fun x hx => by have := ih2 x hx; omega⟩

theorem nodup_getElem?_inj {α : Type} : ∀ (l : List α), l.Nodup → ∀ (i j : Nat) (v : α),
    l[i]? = some v → l[j]? = some v → i = j := by
  intro l
  induction l with
  | nil => intro _ i j v h; simp at h
  | cons a t ih =>
    intro hn i j v hi hj
    have hn' := List.nodup_cons.mp hn
    cases i with
    | zero =>
      cases j with
      | zero => rfl
      | succ j =>
        simp only [List.getElem?_cons_zero, Option.some.injEq] at hi
        simp only [List.getElem?_cons_succ] at hj
        subst hi
        exact absurd (List.mem_of_getElem? hj) hn'.1
    | succ i =>
      cases j with
      | zero =>
        simp only [List.getElem?_cons_zero, Option.some.injEq] at hj
        simp only [List.getElem?_cons_succ] at hi
        subst hj
        exact absurd (List.mem_of_getElem? hi) hn'.1
      | succ j =>
        simp only [List.getElem?_cons_succ] at hi hj
        rw [ih hn'.2 i j v hi hj]

theorem takeIdx_spec {α : Type} (l : List α) : ∀ (idxs : List Nat) (r : List α), takeIdx l idxs = .ok r →
    r.length = idxs.length ∧ ∀ x ∈ r, ∃ j ∈ idxs, l[j]? = some x := by
  intro idxs
  induction idxs with
  | nil => intro r h; simp only [takeIdx, pure, Except.pure, Except.ok.injEq] at h; subst h; simp
  | cons i t ih =>
    intro r h
    simp only [takeIdx, bind, Except.bind] at h
    cases hg : getNat l i with
    | error e => simp [hg] at h
    | ok v =>
      cases ht : takeIdx l t with
      | error e => simp [hg, ht] at h
      | ok vs =>
        simp only [hg, ht, pure, Except.pure, Except.ok.injEq] at h
        subst h
        obtain ⟨h1, h2⟩ := ih vs ht
        have hv : l[i]? = some v := by
          simp only [getNat] at hg
          split at hg
          · rename_i w hw; simp only [Except.ok.injEq] at hg; subst hg; exact hw
          · simp at hg
        refine ⟨by simp [h1], ?_⟩
        intro x hx
        rcases List.mem_cons.mp hx with rfl | hx
        · exact ⟨i, List.mem_cons_self .., hv⟩
        · obtain ⟨j, hj, hjv⟩ := h2 x hx
          exact ⟨j, List.mem_cons_of_mem _ hj, hjv⟩

theorem takeIdx_nodup {α : Type} (l : List α) (hl : l.Nodup) : ∀ (idxs : List Nat) (r : List α),
    idxs.Nodup → takeIdx l idxs = .ok r → r.Nodup := by
  intro idxs
  induction idxs with
  | nil => intro r _ h; simp only [takeIdx, pure, Except.pure, Except.ok.injEq] at h; subst h; simp
  | cons i t ih =>
    intro r hn h
    have hn' := List.nodup_cons.mp hn
    simp only [takeIdx, bind, Except.bind] at h
    cases hg : getNat l i with
    | error e => simp [hg] at h
    | ok v =>
      cases ht : takeIdx l t with
      | error e => simp [hg, ht] at h
      | ok vs =>
        simp only [hg, ht, pure, Except.pure, Except.ok.injEq] at h
        subst h
        have hv : l[i]? = some v := by
          simp only [getNat] at hg
          split at hg
          · rename_i w hw; simp only [Except.ok.injEq] at hg; subst hg; exact hw
          · simp at hg
        refine List.nodup_cons.mpr ⟨?_, ih vs hn'.2 ht⟩
        intro hmem
        obtain ⟨j, hj, hjv⟩ := (takeIdx_spec l t vs ht).2 v hmem
        have := nodup_getElem?_inj l hl i j v hv hjv
        subst this
        exact hn'.1 hj

/-- **align keeps the series well-formed** whenever moving the boundaries onto their nearest
    segment starts keeps them in order (which is the case for increasing segment starts; that
    monotonicity of the nearest-start map is assumed here, not proved) -/
theorem align_wf_of_mono (c : Cat V) (h : c.WF) (segs : List Nat)
    (hmono : (c.ev.map (nearest segs)).Pairwise (· ≤ ·)) (c' : Cat V) (hal : c.align segs = .ok c') :
    c'.WF := by
  simp only [Cat.align] at hal
  split at hal
  · simp at hal
  · split at hal
    · simp at hal
    · rename_i sel hsel
      split at hal
      · simp at hal
      · rename_i hany
        split at hal
        · simp at hal
        · rename_i uniq' hu
          split at hal
          · simp at hal
          · rename_i evs hevs
            split at hal
            · simp at hal
            · rename_i last hlast
              simp only [Except.ok.injEq] at hal
              subst hal
              have hlenm : (c.ev.map (nearest segs)).length ≤ c.idx.length + 1 := by
                simp [h.2.1]
              have hsel' := takeIdx_rises (c.ev.map (nearest segs)) [] c.idx hlenm
              simp only [List.nil_append, List.length_nil] at hsel'
              rw [hsel'] at hsel
              simp only [Except.ok.injEq] at hsel
              have hevs' := takeIdx_rises (c.ev.map (nearest segs)) [] (c.ev.map (nearest segs)) (by omega)
              simp only [List.nil_append, List.length_nil] at hevs'
              rw [hevs'] at hevs
              simp only [Except.ok.injEq] at hevs
              have hlastD : (c.ev.map (nearest segs)).getLastD 0 = last := by
                rw [List.getLastD_eq_getLast?, hlast]; rfl
              obtain ⟨hstrict, _⟩ := keptRise_strict _ hmono
              rw [hlastD, hevs] at hstrict
              have hanyF : ∀ i ∈ sel, i < c.uniq.length := by
                intro i hi
                have : ¬ (sel.any fun i => decide (c.uniq.length ≤ i)) = true := hany
                simp only [List.any_eq_true, decide_eq_true_eq, not_exists, not_and, Nat.not_le] at this
                exact this i hi
              obtain ⟨hulen, _⟩ := takeIdx_spec _ _ _ hu
              refine ⟨pairwise_lt_strictInc _ hstrict, ?_, ?_, ?_⟩
              · simp only [List.length_append, List.length_map, List.length_cons, List.length_nil]
                rw [← hsel, ← hevs]
                rw [keptRise_length _ c.idx (c.ev.map (nearest segs)) hlenm (by omega)]
              · intro i hi
                simp only [List.mem_map] at hi
                obtain ⟨j, hj, rfl⟩ := hi
                rw [hulen]
                apply List.idxOf_lt_length_iff.mpr
                simp only [List.mem_filter, List.mem_range, List.contains_iff_mem]
                exact ⟨hanyF j hj, hj⟩
              · exact takeIdx_nodup c.uniq h.2.2.2 _ _
                  (List.Nodup.sublist List.filter_sublist List.nodup_range) hu

/-! ### the nearest-start map is monotone, hence `align` always keeps the series well-formed -/

theorem argminFirst_min : ∀ (l : List Nat), l ≠ [] → ∀ x ∈ l, l.getD (argminFirst l) 0 ≤ x := by
  intro l hne
  cases l with
  | nil => exact absurd rfl hne
  | cons a t =>
    -- fold invariant: `bv` is the entry at `best` of the full list and is ≤ everything seen so far
    have key : ∀ (t : List Nat) (pre : List Nat) (best bv : Nat),
        (pre ++ t).getD best 0 = bv → best < pre.length → (∀ x ∈ pre, bv ≤ x) →
        let r := t.foldl (fun (acc : Nat × Nat × Nat) x =>
          if x < acc.2.1 then (acc.2.2, x, acc.2.2 + 1) else (acc.1, acc.2.1, acc.2.2 + 1)) (best, bv, pre.length)
        ∀ x ∈ pre ++ t, (pre ++ t).getD r.1 0 ≤ x := by
      intro t
      induction t with
      | nil =>
        intro pre best bv hb _ hall
        simp only [List.foldl_nil, List.append_nil] at hb ⊢
        intro x hx
        rw [hb]; exact hall x hx
      | cons y u ih =>
        intro pre best bv hb hlt hall
        simp only [List.foldl_cons]
        have happ : pre ++ y :: u = (pre ++ [y]) ++ u := by simp
        split
        · rename_i hy
          have := ih (pre ++ [y]) pre.length y (by simp [List.getD])
            (by simp) (by
              intro x hx
              simp only [List.mem_append, List.mem_singleton] at hx
              rcases hx with hx | rfl
              · have := hall x hx; omega
              · omega)
          simp only [List.length_append, List.length_cons, List.length_nil, Nat.zero_add] at this
          rw [happ]; exact this
        · rename_i hy
          have hb' : ((pre ++ [y]) ++ u).getD best 0 = bv := by rw [← happ]; exact hb
          have := ih (pre ++ [y]) best bv hb' (by simp; omega) (by
              intro x hx
              simp only [List.mem_append, List.mem_singleton] at hx
              rcases hx with hx | rfl
              · exact hall x hx
              · omega)
          simp only [List.length_append, List.length_cons, List.length_nil, Nat.zero_add] at this
          rw [happ]; exact this
    have := key t [a] 0 a (by simp [List.getD]) (by simp) (by simp)
    simpa [argminFirst] using this

theorem nearest_min (segs : List Nat) (hne : segs ≠ []) (e : Nat) : ∀ s ∈ segs, absDiff e (nearest segs e) ≤ absDiff e s := by
  intro s hs
  have hlt : argminFirst (segs.map (absDiff e)) < segs.length := by
    have := argminFirst_lt (segs.map (absDiff e)) (by simpa using hne)
    simpa using this
  have := argminFirst_min (segs.map (absDiff e)) (by simpa using hne) (absDiff e s) (List.mem_map_of_mem hs)
  simpa [nearest, List.getD, List.getElem?_eq_getElem hlt, List.getElem?_map] using this

theorem nearest_mono (segs : List Nat) (hne : segs ≠ []) (e e' : Nat) (h : e ≤ e') :
    nearest segs e ≤ nearest segs e' := by
  have h1 := nearest_min segs hne e (nearest segs e') (nearest_mem segs hne e')
  have h2 := nearest_min segs hne e' (nearest segs e) (nearest_mem segs hne e)
  by_cases heq : e = e'
  · subst heq; exact Nat.le_refl _
  · simp only [absDiff] at h1 h2
    split at h1 <;> split at h1 <;> split at h2 <;> split at h2 <;> omega

/-- **align keeps the series well-formed**, for every well-formed series and every sequence of
    segment starts (sorted or not) -/
theorem align_wf (c : Cat V) (h : c.WF) (segs : List Nat) (c' : Cat V) (hal : c.align segs = .ok c') :
    c'.WF := by
  by_cases hne : segs = []
  · simp [Cat.align, hne] at hal
  · apply align_wf_of_mono c h segs ?_ c' hal
    rw [List.pairwise_map]
    exact (WF.sorted h).imp (fun hab => nearest_mono segs hne _ _ hab)

end Categorical
