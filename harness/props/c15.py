"""C15 - weights, excision, Van Vleck correction and averaging are reconstructed as documented.

Families of correspondence cases (all arrays small; every float is sent to the Lean driver as its
exact binary64 bit pattern and comes back as an exact rational or a special-value class):

  c2a   corrprod_to_autocorr on shuffled product lists (cross-pol, missing autocorrelations)
  kern  the scalar kernel of weight_power_scale on the special-value grid x random values
  wps   weight_power_scale on (T, F, B) arrays with the real lookup arrays
  vfw   ChunkStoreVisFlagsWeights over a Dict/Npy chunk store: both weight-scaling declarations,
        random chunking incl. the baseline axis (and a second baseline chunking: metamorphic),
        Van Vleck on/off
  vv    correct_autocorr_quantisation: only autocorrelations change, monotonically; the actual
        lookup table is tested for monotonicity at run time (a test, labelled so)
  exc   d.weights[:] / d.excision[:] of a synthetic v4 data set (harness/v4synth.py)
  avg   average_visibilities on small dyadic inputs
  v3    H5DataV3.weights transform (object stub around the real property; harness/h5synth.py
        end-to-end when that builder exists and the file opens)

Finite values are compared with relative tolerance 1e-6 (binary32 arithmetic in the code, exact
rationals in the model), special-value classes exactly.
"""
import json
import math
import os
import random
import shutil
import tempfile
from fractions import Fraction

import dask
import dask.array as da
import numpy as np

from harness import common

PROP = 'C15'
RTOL = 1e-6
ATOL = 1e-40
KF_INF = 'autocorrelation of +/-inf gives weight 0 instead of the tiny positive substitute'

RULE = ('cases = c2a (1-4 inputs x pols, random subset of cross products incl. cross-pol and swapped order, '
        'shuffled, an autocorrelation removed in ~15%), kern (batches of (a1, a2, w) triples from the grid '
        '{0,-0,nan,+-inf,denormal,huge,+-powers of two,random} x divide/multiply, evaluated by the real '
        'weight_power_scale), wps (random (T,F,B) arrays with special values sprinkled over the autocorrelations), '
        'vfw (ChunkStoreVisFlagsWeights over Dict/Npy stores, random chunking on all axes incl. baseline, both '
        'stored-weights declarations, Van Vleck off/on, second baseline chunking compared bit-for-bit), vv '
        '(correct_autocorr_quantisation, monotonicity on sorted probes and on the table itself), exc (synthetic v4 '
        'data set: d.weights[:], d.excision[:] for n_accs x cbf-dump ratios incl. half-way ratios and tie weights), '
        'avg (average_visibilities, all factor pairs 1..8 incl. larger than the axis, flag densities 0..1 incl. '
        'all-flagged bins, zero weights), v3 (weights transform, datasets absent/present, weight type deselected). '
        'non-trivial = non-empty output with at least one element that is not a plain copy of an input; '
        'distinct = hash of the first request line.')
TRUSTED = ['Lean 4.33 kernel', 'axioms: propext, Classical.choice, Quot.sound only',
           'hand-written model KatdalModel/Model/Weights.lean tied to /repo by this differential run',
           'binary32 rounding is not modelled: finite values compared with relative tolerance 1e-6, '
           'special-value classes exactly',
           'exact decoding of IEEE bit patterns in Driver/C15.lean (decodeF64)',
           'Van Vleck table monotonicity: run-time test of the actual table, not a theorem',
           'dask/numba execute the kernels as written (blockwise per time-frequency block)']
CHECKER = 'lake build KatdalModel.Props.C15 kd_c15 && lake env lean <#print axioms audit>'


# ---------------------------------------------------------------- encoding

def enc(a):
    a = np.ascontiguousarray(np.asarray(a, dtype=np.float64)).ravel()
    if a.size == 0:
        return '-'
    return ','.join(map(str, a.view(np.uint64).tolist()))


def enc32(a):
    a = np.ascontiguousarray(np.asarray(a, dtype=np.float32)).ravel()
    return ','.join(map(str, a.view(np.uint32).tolist()))


def enc_cps(cps):
    return '-' if not cps else ','.join(f'{a}:{b}' for a, b in cps)


def enc_nats(l):
    l = list(l)
    return '-' if not l else ','.join(str(int(v)) for v in l)


def dec_scalars(s):
    """'nan,inf,3/4' -> float64 array (exact enough: the tolerance is 1e-6)"""
    if s == '-' or s == '':
        return np.zeros(0)
    out = []
    for tok in s.split(','):
        if tok == 'nan':
            out.append(math.nan)
        elif tok == 'inf':
            out.append(math.inf)
        elif tok == '-inf':
            out.append(-math.inf)
        else:
            p, q = tok.split('/')
            try:
                out.append(int(p) / int(q))
            except OverflowError:
                out.append(float(Fraction(int(p), int(q))))
    return np.array(out, dtype=np.float64)


def mismatch(impl, model, rtol=RTOL, atol=ATOL):
    """flat indices where impl (float array) differs from model (float64 array): class exactly,
    finite values within tolerance"""
    x = np.asarray(impl, dtype=np.float64).ravel()
    m = np.asarray(model, dtype=np.float64).ravel()
    if x.shape != m.shape:
        return None
    okk = (np.isnan(x) & np.isnan(m)) | (np.isinf(x) & np.isinf(m) & (np.sign(x) == np.sign(m)))
    fin = np.isfinite(x) & np.isfinite(m)
    with np.errstate(all='ignore'):
        close = fin & (np.abs(x - m) <= rtol * np.abs(m) + atol)
    return np.nonzero(~(okk | close))[0]


def f32list(a):
    return [float(v) for v in np.asarray(a, dtype=np.float32).ravel()]


# ---------------------------------------------------------------- generators

SPECIAL = [0.0, -0.0, math.nan, math.inf, -math.inf]


def gen_inputs(rng, n=None):
    n = n or rng.randint(1, 4)
    pols = rng.choice(['h', 'hv', 'hv', 'v'])
    ants = rng.sample(range(0, 64), n)
    return [f'm{a:03}{p}' for a in ants for p in pols]


def gen_cps(rng, inputs=None, drop_auto=False):
    inputs = inputs or gen_inputs(rng)
    autos = [(i, i) for i in inputs]
    cross = [(a, b) for a in inputs for b in inputs if a != b]
    rng.shuffle(cross)
    keep = cross[:rng.randint(0, min(len(cross), 8))]
    cps = autos + keep
    if drop_auto and len(autos) > 0:
        victim = rng.choice(autos)
        cps.remove(victim)
        if not any(victim[0] in p for p in cps):
            # make sure the missing autocorrelation is actually needed
            other = rng.choice(inputs)
            cps.append((victim[0], other) if rng.random() < 0.5 else (other, victim[0]))
    rng.shuffle(cps)
    return [list(p) for p in cps]


def gen_value(rng, special=0.25, vv=False):
    r = rng.random()
    if r < special:
        return rng.choice(SPECIAL)
    if vv:
        return float(np.float32(rng.choice([rng.uniform(0, 40), rng.uniform(0, 3000), rng.uniform(-5, 40000)])))
    r = rng.random()
    if r < 0.45:
        return float(2.0 ** rng.randint(-6, 8)) * rng.choice([1, 1, 1, -1])
    if r < 0.9:
        return float(np.float32(rng.uniform(0.05, 300.0))) * rng.choice([1, 1, 1, 1, -1])
    return float(rng.randint(1, 2000))


def gen_vis(rng, T, F, cps, special=0.25, vv=False, real_autos=True):
    B = len(cps)
    re = np.zeros((T, F, B), np.float32)
    im = np.zeros((T, F, B), np.float32)
    for b, (a, c) in enumerate(cps):
        for t in range(T):
            for f in range(F):
                if a == c:
                    re[t, f, b] = gen_value(rng, special, vv)
                    im[t, f, b] = 0.0 if real_autos else rng.choice([0.0, 0.0, 1.5, -2.0])
                else:
                    re[t, f, b] = rng.choice([rng.uniform(-50, 50), float(rng.randint(-9, 9))])
                    im[t, f, b] = rng.choice([rng.uniform(-50, 50), float(rng.randint(-9, 9))])
    return re, im


def random_chunks(rng, n, max_chunks=3):
    if n == 0:
        return (0,)
    k = rng.randint(1, min(max_chunks, n))
    cuts = sorted(rng.sample(range(1, n), k - 1)) if k > 1 else []
    edges = [0] + cuts + [n]
    return tuple(b - a for a, b in zip(edges[:-1], edges[1:]))


# ---------------------------------------------------------------- c2a

_BIG_C2A = [255, 256, 257]


def gen_c2a(rng):
    forced = _BIG_C2A.pop(0) if _BIG_C2A else None      # every run has the three boundary positions
    if forced is not None or rng.random() < 0.04:
        # many products: the last autocorrelation sits exactly at position 255 / 256 / 257 (or 254 / 258), where
        # the index arrays change their integer width
        inputs = [f'm{a:03}{p}' for a in range(12) for p in 'hv']
        autos = [[i, i] for i in inputs]
        cross = [[a, b] for k, a in enumerate(inputs) for b in inputs[k + 1:]]
        rng.shuffle(cross)
        rng.shuffle(autos)
        last = forced if forced is not None else rng.choice([254, 255, 256, 256, 257, 258])
        first = last - len(autos) + 1
        cps = cross[:first] + autos + cross[first:]
        return dict(kind='c2a', cps=cps, as_array=rng.random() < 0.5)
    cps = gen_cps(rng, drop_auto=rng.random() < 0.15)
    dup = rng.random() < 0.05
    if dup:
        autos = [p for p in cps if p[0] == p[1]]
        if autos:
            cps.insert(rng.randint(0, len(cps)), list(rng.choice(autos)))
    return dict(kind='c2a', cps=cps, as_array=rng.random() < 0.5)


def lines_c2a(c):
    return ['c2a ' + enc_cps(c['cps'])]


def judge_c2a(ctx, c, rep):
    from katdal.vis_flags_weights import corrprod_to_autocorr
    cps = [tuple(p) for p in c['cps']]
    arg = np.array(cps) if c['as_array'] else cps
    labels = {x for p in cps for x in p}
    autos = {a for a, b in cps if a == b}
    missing = bool(labels - autos)
    ctx.tag('c2a-missing-auto' if missing else 'c2a-ok')
    if any(a != b and a[:-1] == b[:-1] for a, b in cps):
        ctx.tag('c2a-crosspol')
    try:
        ai, i1, i2 = corrprod_to_autocorr(arg)
        got = (ai.tolist(), i1.tolist(), i2.tolist())
        err = None
    except Exception as e:   # noqa: BLE001
        got, err = None, type(e).__name__
    out = []
    if missing:
        if err != 'KeyError':
            out.append(f'missing autocorrelation: expected KeyError, implementation gave {err or got}')
        if rep != 'E:KeyError':
            ctx.advise(f'model did not answer KeyError for {c["cps"]}: {rep}')
        return out, False
    if err:
        return [f'implementation raised {err} although every autocorrelation is present'], False
    # spec, stated directly: the two indices point at the matching autocorrelation products
    ai, i1, i2 = got
    for b, (x, y) in enumerate(cps):
        if not (len(i1) == len(i2) == len(cps)) or cps[ai[i1[b]]] != (x, x) or cps[ai[i2[b]]] != (y, y):
            out.append(f'product {b} {(x, y)}: indices do not point at autocorrelations ({x},{x}) / ({y},{y}): '
                       f'auto_indices={ai} index1={i1} index2={i2}')
            break
    if sorted(ai) != [k for k, (x, y) in enumerate(cps) if x == y]:
        out.append(f'auto_indices {ai} is not the set of autocorrelation positions')
    mrep = ';'.join(enc_nats(v) if v else '' for v in got)
    dup = len({(a, b) for a, b in cps if a == b}) != len([1 for a, b in cps if a == b])
    if dup:
        ctx.tag('c2a-duplicate-auto(mirror-only)')
    if rep != mrep:
        ctx.advise(f'mirror model differs from implementation on c2a {c["cps"]}: {rep} vs {mrep}')
        if not out and not dup:
            # without duplicates the documented meaning determines the three arrays uniquely
            out.append(f'corrprod_to_autocorr returned {mrep}, model {rep}')
    return out, True


# ---------------------------------------------------------------- kern

GRID_A = [0.0, -0.0, math.nan, math.inf, -math.inf, 1.0, -1.0, 2.0, 0.5, 3.0, 1e-45, 1e-39, 3e38, -3e38, 7.25]
GRID_W = [0.0, 1.0, 3.0, 255.0, 0.5, 1020.0]


def gen_kern(rng, n=400):
    tr = []
    for _ in range(n):
        r = rng.random()
        if r < 0.5:
            a1, a2 = rng.choice(GRID_A), rng.choice(GRID_A)
        elif r < 0.8:
            a1, a2 = rng.choice(GRID_A), gen_value(rng, 0.0)
            if rng.random() < 0.5:
                a1, a2 = a2, a1
        else:
            a1, a2 = gen_value(rng, 0.0), gen_value(rng, 0.0)
        w = rng.choice(GRID_W) if rng.random() < 0.6 else float(np.float32(rng.uniform(0, 300)))
        tr.append([float(np.float32(a1)), float(np.float32(a2)), float(np.float32(w))])
    return dict(kind='kern', divide=rng.random() < 0.6, triples=tr)


def lines_kern(c):
    flat = [v for t in c['triples'] for v in t]
    d = '1' if c['divide'] else '0'
    return [f'kq {d} {enc(flat)}', f'kf32 {d} {enc32(flat)}']


def exact_domain(*vals):
    """finite non-zero magnitudes stay far from binary32 overflow/underflow"""
    for v in vals:
        if math.isfinite(v) and v != 0 and not (2.0 ** -30 <= abs(v) <= 2.0 ** 30):
            return False
    return True


def judge_kern(ctx, c, rep_q, rep_f):
    from katdal.vis_flags_weights import weight_power_scale
    tr = np.array(c['triples'], dtype=np.float32).reshape(-1, 3)
    n = len(tr)
    vis = np.zeros((n, 1, 3), np.complex64)
    vis[:, 0, 0] = tr[:, 0]
    vis[:, 0, 1] = tr[:, 1]
    vis[:, 0, 2] = 5 - 7j
    w = np.ones((n, 1, 3), np.float32)
    w[:, 0, 2] = tr[:, 2]
    ai = np.array([0, 1], np.uint8)
    i1 = np.array([0, 1, 0], np.uint8)
    i2 = np.array([0, 1, 1], np.uint8)
    try:
        out = weight_power_scale(vis, w, ai, i1, i2, divide=bool(c['divide']))[:, 0, 2]
    except Exception as e:   # noqa: BLE001
        return [(f'weight_power_scale raised {type(e).__name__}: {e}', c)], False
    impl_s, spec_s, fam = rep_q.split(';')
    spec = dec_scalars(spec_s)
    # (1) hardware-float mirror: advisory only
    f32 = np.array([int(v) for v in rep_f.split(',')], dtype=np.uint32).view(np.float32)
    same = (np.isnan(out) & np.isnan(f32)) | (out == f32)
    if not same.all():
        k = int(np.nonzero(~same)[0][0])
        ctx.advise(f'Float32 mirror kernel differs from implementation on {tr[k].tolist()} divide={c["divide"]}: '
                   f'{out[k]} vs {f32[k]}')
    # (2) documented kernel on the exact domain
    bad = mismatch(out, spec)
    res_fam, res_other = [], []
    for k in (bad.tolist() if bad is not None else []):
        a1, a2, ww = (float(v) for v in tr[k])
        both_regular = all(math.isfinite(v) and v != 0 for v in (a1, a2))
        if not exact_domain(ww) or (both_regular and not exact_domain(a1, a2)):
            # the value depends on binary32 overflow/underflow, which the exact model does not have
            ctx.tag('kern-outside-exact-domain')
            continue
        (res_fam if fam[k] == '1' and out[k] == 0 else res_other).append(k)
    for k in range(n):
        a1, a2 = float(tr[k, 0]), float(tr[k, 1])
        ctx.tag('kern-' + ('nan' if (math.isnan(a1) or math.isnan(a2)) else 'inf' if (math.isinf(a1) or math.isinf(a2))
                           else 'zero' if (a1 == 0 or a2 == 0) else 'neg' if (a1 < 0 or a2 < 0) else 'pos'))
    res = []
    if res_other:
        k = res_other[0]
        res.append((f'kernel({"divide" if c["divide"] else "multiply"}) a1={tr[k, 0]} a2={tr[k, 1]} w={tr[k, 2]}: '
                    f'implementation {out[k]!r}, documented {spec[k]!r}', dict(c, triples=[c['triples'][k]])))
    if res_fam:
        k = res_fam[0]
        res.append((f'{KF_INF}: a1={tr[k, 0]} a2={tr[k, 1]} w={tr[k, 2]} -> {out[k]!r}, documented {spec[k]!r} '
                    f'[{len(res_fam)} triple(s)]', dict(c, triples=[c['triples'][k]])))
    return res, True


# ---------------------------------------------------------------- wps / vfw shared judging

def py_auto_pos(cps):
    pos = {}
    for k, (a, b) in enumerate(cps):
        if a == b and a not in pos:
            pos[a] = k
    return pos


def split_family(cps, re, divide, idx, impl, shape):
    """split mismatching flat indices into (inf-family with impl == 0, others)"""
    pos = py_auto_pos([tuple(p) for p in cps])
    fam, other = [], []
    for i in idx:
        t, f, b = np.unravel_index(int(i), shape)
        a, c = cps[b]
        a1, a2 = float(re[t, f, pos[a]]), float(re[t, f, pos[c]])
        infam = (divide and (math.isinf(a1) or math.isinf(a2)) and not (math.isnan(a1) or math.isnan(a2))
                 and not (a1 == 0 or a2 == 0))
        (fam if infam and impl.ravel()[i] == 0 else other).append(int(i))
    return fam, other


def describe(shape, i, impl, model):
    t, f, b = np.unravel_index(int(i), shape)
    return f'[t={t}, f={f}, b={b}] implementation {impl.ravel()[i]!r}, documented {model.ravel()[i]!r}'


# ---------------------------------------------------------------- wps

def gen_wps(rng):
    T, F = rng.randint(1, 3), rng.randint(1, 3)
    cps = gen_cps(rng)
    re, im = gen_vis(rng, T, F, cps, special=rng.choice([0.0, 0.2, 0.5]))
    B = len(cps)
    w = np.array([rng.choice([0.0, 0.5, 1.0, 3.0, 255.0, rng.uniform(0, 500)]) for _ in range(T * F * B)], np.float32)
    return dict(kind='wps', T=T, F=F, cps=cps, re=f32list(re), im=f32list(im), w=f32list(w),
                divide=rng.random() < 0.6, use_out=rng.random() < 0.3)


def lines_wps(c):
    from katdal.vis_flags_weights import corrprod_to_autocorr
    cps = [tuple(p) for p in c['cps']]
    try:
        ai, i1, i2 = corrprod_to_autocorr(cps)
    except Exception as e:   # noqa: BLE001
        c['_idx'] = e
        ai = i1 = i2 = []
    else:
        c['_idx'] = (ai, i1, i2)
    d = '1' if c['divide'] else '0'
    dims = f"{c['T']} {c['F']} {len(cps)}"
    return [f"wspec {d} {dims} {enc_cps(cps)} {enc(c['re'])} {enc(c['w'])}",
            f"wps {d} {dims} {enc_nats(ai)} {enc_nats(i1)} {enc_nats(i2)} {enc(c['re'])} {enc(c['w'])}"]


def judge_wps(ctx, c, rep_spec, rep_mirror):
    from katdal.vis_flags_weights import weight_power_scale
    cps = [tuple(p) for p in c['cps']]
    T, F, B = c['T'], c['F'], len(cps)
    shape = (T, F, B)
    re = np.array(c['re'], np.float32).reshape(shape)
    im = np.array(c['im'], np.float32).reshape(shape)
    vis = (re + 1j * im).astype(np.complex64)
    vis.real = re      # keep NaN/inf real parts untouched by the complex arithmetic above
    vis.imag = im
    w = np.array(c['w'], np.float32).reshape(shape)
    if isinstance(c['_idx'], Exception):
        return [(f'corrprod_to_autocorr raised {type(c["_idx"]).__name__} on a complete product list', c)], False
    ai, i1, i2 = c['_idx']
    try:
        if c['use_out']:
            buf = np.full(shape, -1, np.float32)
            out = weight_power_scale(vis, w, ai, i1, i2, buf, bool(c['divide']))
        else:
            out = weight_power_scale(vis, w, ai, i1, i2, divide=bool(c['divide']))
    except Exception as e:   # noqa: BLE001
        return [(f'weight_power_scale raised {type(e).__name__}: {e}', c)], False
    res = []
    if rep_spec.startswith('E:'):
        return [(f'model spec raised {rep_spec} on a complete product list', c)], False
    spec = dec_scalars(rep_spec)
    bad = mismatch(out, spec)
    if bad is None:
        return [(f'output shape {out.shape} != {shape}', c)], False
    fam, other = split_family(cps, re, c['divide'], bad, out, shape)
    if other:
        res.append((f'weight_power_scale(divide={c["divide"]}) ' + describe(shape, other[0], out, spec), c))
    if fam:
        res.append((f'{KF_INF}: ' + describe(shape, fam[0], out, spec), c))
    mir = dec_scalars(rep_mirror) if not rep_mirror.startswith('E:') else None
    if mir is None or len(mismatch(out, mir)) > 0:
        ctx.advise(f'mirror model differs from implementation on wps case {json.dumps(c["cps"])}')
    ctx.tag('wps-divide' if c['divide'] else 'wps-multiply')
    return res, True


# ---------------------------------------------------------------- vfw

_VV_TABLE = {}


def vv_table():
    if not _VV_TABLE:
        from katdal.van_vleck import autocorr_lookup_table
        q, t = autocorr_lookup_table(np.arange(-127., 128.))
        _VV_TABLE['q'], _VV_TABLE['t'] = q, t
        _VV_TABLE['enc'] = enc(q) + ' ' + enc(t)
    return _VV_TABLE


def gen_vfw(rng, vv=None):
    T, F = rng.randint(1, 3), rng.randint(1, 3)
    cps = gen_cps(rng)
    B = len(cps)
    vv = (rng.random() < 0.12) if vv is None else vv
    re, im = gen_vis(rng, T, F, cps, special=rng.choice([0.0, 0.15, 0.4]), vv=vv)
    w8 = [rng.choice([0, 1, 255, rng.randint(0, 255)]) for _ in range(T * F * B)]
    wc = [rng.choice([0.5, 1.0, 2.0, 4.0, 0.25, 3.0]) for _ in range(T * F)]

    def ch3():
        return [list(random_chunks(rng, T)), list(random_chunks(rng, F)), list(random_chunks(rng, B, 4))]
    chunks = {'correlator_data': ch3(), 'flags': ch3(), 'weights': ch3(),
              'weights_channel': [list(random_chunks(rng, T)), list(random_chunks(rng, F))]}
    alt = {'correlator_data': list(random_chunks(rng, B, 4)), 'weights': list(random_chunks(rng, B, 4))}
    return dict(kind='vfw', T=T, F=F, cps=cps, re=f32list(re), im=f32list(im), w8=w8, wc=wc, chunks=chunks,
                alt_bchunks=alt, scaled=rng.random() < 0.5, vv=vv, store=rng.choice(['dict', 'dict', 'npy']),
                no_corrprods=(not vv) and rng.random() < 0.06)


def lines_vfw(c):
    cps = [tuple(p) for p in c['cps']]
    sc = '1' if c['scaled'] else '0'
    dims = f"{c['T']} {c['F']} {len(cps)}"
    tbl = vv_table()['enc'] if c['vv'] else '- -'
    body = f"{enc(c['re'])} {enc(c['im'])} {enc(c['w8'])} {enc(c['wc'])} {tbl}"
    if c.get('no_corrprods'):
        return [f'vfw {sc} {dims} none {body}', f'vfw {sc} {dims} none {body}']
    return [f'vfwspec {sc} {dims} {enc_cps(cps)} {body}', f'vfw {sc} {dims} {enc_cps(cps)} {body}']


def build_store(c, arrays, chunks, tmpdir):
    from katdal.chunkstore_dict import DictChunkStore
    from katdal.chunkstore_npy import NpyFileChunkStore
    store = NpyFileChunkStore(tmpdir) if c['store'] == 'npy' else DictChunkStore()
    prefix = c.get('prefix', 'cb-c15')
    chunk_info = {}
    push = []
    for k, a in arrays.items():
        darr = da.from_array(a, chunks=tuple(tuple(x) for x in chunks[k]))
        name = store.join(prefix, k)
        if isinstance(store, DictChunkStore):
            store.arrays[name] = np.zeros_like(a)
        else:
            store.create_array(name)
        chunk_info[k] = {'prefix': prefix, 'chunks': darr.chunks,
                         'dtype': np.lib.format.dtype_to_descr(darr.dtype), 'shape': darr.shape}
        push.append(store.put_dask_array(name, darr))
    da.compute(*push)
    return store, chunk_info


def run_vfw_impl(c, chunks):
    from katdal.vis_flags_weights import ChunkStoreVisFlagsWeights
    cps = [tuple(p) for p in c['cps']]
    T, F, B = c['T'], c['F'], len(cps)
    shape = (T, F, B)
    vis = np.zeros(shape, np.complex64)
    vis.real = np.array(c['re'], np.float32).reshape(shape)
    vis.imag = np.array(c['im'], np.float32).reshape(shape)
    arrays = {'correlator_data': vis,
              'flags': np.zeros(shape, np.uint8),
              'weights': np.array(c['w8'], np.uint8).reshape(shape),
              'weights_channel': np.array(c['wc'], np.float32).reshape(T, F)}
    tmpdir = tempfile.mkdtemp(prefix='c15_') if c['store'] == 'npy' else None
    try:
        with dask.config.set(scheduler='synchronous'):
            store, chunk_info = build_store(c, arrays, chunks, tmpdir)
            kw = dict(stored_weights_are_scaled=bool(c['scaled']), van_vleck='autocorr' if c['vv'] else 'off')
            corrprods = None if c.get('no_corrprods') else (np.array(cps) if len(c['re']) % 2 else cps)
            vfw = ChunkStoreVisFlagsWeights(store, chunk_info, corrprods, **kw)
            res = dict(weights=vfw.weights.compute(), vis=vfw.vis.compute(),
                       unscaled=None if vfw.unscaled_weights is None else vfw.unscaled_weights.compute(),
                       wdtype=str(vfw.weights.dtype))
            if c['vv'] and corrprods is not None and c['store'] == 'dict':
                # a second capture block with the same products and other data, evaluated in the same dask graph
                arrays2 = dict(arrays, correlator_data=(vis * np.float32(1.5) + np.float32(0.25)).astype(np.complex64))
                store2, info2 = build_store(dict(c, prefix='cb2-c15'), arrays2, chunks, None)
                vfw2 = ChunkStoreVisFlagsWeights(store2, info2, corrprods, **kw)
                alone = (vfw2.vis.compute(), vfw2.weights.compute())
                joint = da.compute(vfw.vis, vfw2.vis, vfw.weights, vfw2.weights)
                ok = (np.array_equal(joint[0], res['vis'], equal_nan=True) and np.array_equal(joint[1], alone[0], equal_nan=True)
                      and np.array_equal(joint[2], res['weights'], equal_nan=True)
                      and np.array_equal(joint[3], alone[1], equal_nan=True))
                res['pair_ok'] = bool(ok)
    finally:
        if tmpdir:
            shutil.rmtree(tmpdir, ignore_errors=True)
    return res


def judge_vfw(ctx, c, rep_spec, rep_mirror):
    cps = [tuple(p) for p in c['cps']]
    T, F, B = c['T'], c['F'], len(cps)
    shape = (T, F, B)
    re = np.array(c['re'], np.float32).reshape(shape)
    res = []
    try:
        impl = run_vfw_impl(c, c['chunks'])
    except Exception as e:   # noqa: BLE001
        if c.get('no_corrprods') and not c['scaled']:
            # unscaled stored weights cannot be scaled without corrprods: the property is silent
            ctx.tag('vfw-unscaled-without-corrprods-rejected')
            if rep_spec != 'E:ValueError' or not isinstance(e, ValueError):
                ctx.advise(f'no-corrprods/unscaled: implementation {type(e).__name__}, model {rep_spec}')
            return [], False
        return [(f'ChunkStoreVisFlagsWeights raised {type(e).__name__}: {e}', c)], False
    if rep_spec.startswith('E:'):
        if c.get('no_corrprods'):
            ctx.advise(f'no-corrprods: model {rep_spec}, implementation returned data')
            return [], False
        return [(f'model answered {rep_spec} but the implementation returned data', c)], False
    if impl.get('pair_ok') is not None:
        ctx.tag('vfw-two-data-sets-one-graph')
        if not impl['pair_ok']:
            return [("two capture blocks with the same correlation products opened with van_vleck='autocorr' and computed "
                     'in one dask graph: visibilities / weights of one of them differ from what it gives on its own', c)], True
    ws, us, vre, vim = rep_spec.split('|')
    ctx.tag('vfw-stored-scaled' if c['scaled'] else 'vfw-stored-unscaled', 'vfw-vv' if c['vv'] else 'vfw-novv',
            f"vfw-bchunks-{min(3, len(c['chunks']['correlator_data'][2]))}", 'vfw-' + c['store'])
    # corrected / raw visibilities
    mre, mim = dec_scalars(vre), dec_scalars(vim)
    for nm, got, want in (('real', impl['vis'].real, mre), ('imag', impl['vis'].imag, mim)):
        bad = mismatch(got, want)
        if bad is None or len(bad):
            autos = [k for k, (a, b) in enumerate(cps) if a == b]
            where = describe(shape, bad[0], got, want) if bad is not None and len(bad) else 'shape'
            kind = 'Van Vleck corrected' if c['vv'] else 'stored'
            onauto = (bad is not None and len(bad) and np.unravel_index(int(bad[0]), shape)[2] in autos)
            res.append((f'{kind} visibilities ({nm} part, {"auto" if onauto else "cross"} product) {where}', c))
            break
    # effective autocorrelations for the known-finding family
    re_eff = impl['vis'].real if c['vv'] else re
    # when the correction is on, only trust re_eff for family classification if vis agreed
    for nm, got, want_s, divide in (('weights', impl['weights'], ws, not c['scaled']),
                                    ('unscaled_weights', impl['unscaled'], us, False if c['scaled'] else None)):
        if want_s == 'none':
            if got is not None:
                res.append((f'{nm} should be None without corrprods', c))
            continue
        if got is None:
            res.append((f'{nm} is None', c))
            continue
        want = dec_scalars(want_s)
        bad = mismatch(got, want)
        if bad is None:
            res.append((f'{nm} shape {got.shape} != {shape}', c))
            continue
        if c.get('no_corrprods'):
            fam, other = [], bad.tolist()
        else:
            fam, other = split_family(cps, re_eff, bool(divide), bad, got, shape)
        decl = 'stored weights declared scaled' if c['scaled'] else 'stored weights declared unscaled'
        if other:
            res.append((f'{nm} ({decl}) ' + describe(shape, other[0], got, want), c))
        if fam:
            res.append((f'{KF_INF}: {nm} ({decl}) ' + describe(shape, fam[0], got, want), c))
    if impl['wdtype'] != 'float32':
        ctx.advise(f'weights dtype {impl["wdtype"]}')
    # baseline-chunking invariance (metamorphic, bit-for-bit)
    if not c.get('no_corrprods'):
        ch2 = json.loads(json.dumps(c['chunks']))
        ch2['correlator_data'][2] = c['alt_bchunks']['correlator_data']
        ch2['weights'][2] = c['alt_bchunks']['weights']
        try:
            impl2 = run_vfw_impl(c, ch2)
            for nm in ('weights', 'unscaled', 'vis'):
                if not np.array_equal(impl[nm], impl2[nm], equal_nan=True):
                    res.append((f'{nm} depends on the chunking along the baseline axis '
                                f'({c["chunks"]["correlator_data"][2]}/{c["chunks"]["weights"][2]} vs '
                                f'{ch2["correlator_data"][2]}/{ch2["weights"][2]})', c))
                    break
        except Exception as e:   # noqa: BLE001
            res.append((f'second baseline chunking raised {type(e).__name__}: {e}', c))
    if not rep_mirror.startswith('E:'):
        mw = dec_scalars(rep_mirror.split('|')[0])
        b2 = mismatch(impl['weights'], mw)
        if b2 is None or len(b2):
            ctx.advise('mirror model weights differ from implementation on a vfw case')
    return res, True


# ---------------------------------------------------------------- vv (monotonicity and locality)

def gen_vv(rng):
    cps = gen_cps(rng)
    n = rng.randint(4, 12)
    xs = sorted({gen_value(rng, 0.0, vv=True) for _ in range(n)} | {0.0, 1.0, 2.0, 32258.0, 40000.0, -3.0})
    return dict(kind='vv', cps=cps, xs=[float(np.float32(x)) for x in xs], chunks_b=list(random_chunks(rng, len(cps), 3)),
                imag_auto=rng.random() < 0.3)


def lines_vv(c):
    return ['interp ' + vv_table()['enc'] + ' ' + enc(c['xs'])]


def judge_vv(ctx, c, rep):
    from katdal.vis_flags_weights import correct_autocorr_quantisation
    cps = [tuple(p) for p in c['cps']]
    B = len(cps)
    xs = np.array(c['xs'], np.float32)
    n = len(xs)
    vis = np.zeros((n, 1, B), np.complex64)
    autos = [k for k, (a, b) in enumerate(cps) if a == b]
    for k in range(B):
        if k in autos:
            vis[:, 0, k] = xs + (1j if c['imag_auto'] else 0)
        else:
            vis[:, 0, k] = xs * (1 - 2j) + k
    dvis = da.from_array(vis, chunks=((n,), (1,), tuple(c['chunks_b'])))
    try:
        with dask.config.set(scheduler='synchronous'):
            out = correct_autocorr_quantisation(dvis, np.array(cps)).compute()
    except Exception as e:   # noqa: BLE001
        return [(f'correct_autocorr_quantisation raised {type(e).__name__}: {e}', c)], False
    res = []
    cross = [k for k in range(B) if k not in autos]
    if cross and not np.array_equal(out[..., cross], vis[..., cross]):
        res.append(('Van Vleck correction changed a cross-correlation product', c))
    want = dec_scalars(rep)
    for k in autos:
        bad = mismatch(out[:, 0, k].real, want)
        if bad is None or len(bad):
            i = int(bad[0]) if bad is not None else 0
            res.append((f'Van Vleck corrected autocorrelation for input {xs[i]!r}: implementation '
                        f'{out[i, 0, k].real!r}, table interpolation {want[i]!r}', c))
            break
        if np.any(np.diff(out[:, 0, k].real) < 0):
            res.append(('Van Vleck correction is not monotone on sorted autocorrelations', c))
            break
        if not c['imag_auto'] and np.any(out[:, 0, k].imag != 0):
            res.append(('Van Vleck correction changed the imaginary part of a real autocorrelation', c))
            break
    if c['imag_auto']:
        ctx.tag('vv-auto-with-imag(part-outside-property)')
    # a dead input (zero or negative autocorrelation) stays without power after the correction, so that its products
    # still get the tiny substitute weight ("where an autocorrelation is zero or not finite")
    if not res and autos:
        dead = np.zeros((3, 1, B), np.complex64)
        dead[1, 0, autos] = -2.0
        dead[2, 0, autos] = 5.0
        with dask.config.set(scheduler='synchronous'):
            o2 = correct_autocorr_quantisation(da.from_array(dead, chunks=((3,), (1,), (B,))), np.array(cps)).compute()
        k0 = autos[0]
        if o2[0, 0, k0].real != 0.0 or o2[1, 0, k0].real > 0.0 or not o2[2, 0, k0].real > 0.0:
            res.append((f'Van Vleck correction of a zero / negative autocorrelation gives {o2[0, 0, k0].real!r} / '
                        f'{o2[1, 0, k0].real!r}: a dead input acquires power and loses the substitute weight', c))
        ctx.tag('vv-dead-input')
    ctx.tag('vv')
    return res, True


def table_monotone_test(ctx):
    """run-time TEST (not a theorem): the lookup table katdal actually builds is monotone, which is
    the hypothesis of theorem c15_vanvleck_monotone"""
    tb = vv_table()
    q, t = tb['q'], tb['t']
    ok = bool(np.all(np.diff(q) >= 0) and np.all(np.diff(t) >= 0) and len(q) == len(t) and len(q) > 0)
    ctx.tag('vv-table-monotone-test-passed' if ok else 'vv-table-monotone-test-FAILED')
    return ok


# ---------------------------------------------------------------- exc (end-to-end v4)

def gen_exc(rng):
    n_ants = rng.choice([1, 2])
    pols = rng.choice(['h', 'hv']) if n_ants == 2 else 'hv'
    ratio_num = rng.choice([2, 4, 6, 8, 3, 5, 7, 10])      # int_time / cbf_int_time = ratio_num / 2
    return dict(kind='exc', T=rng.randint(1, 3), F=rng.randint(1, 3), n_ants=n_ants, pols=pols,
                nps=rng.random() < 0.6, n_accs=rng.choice([1, 2, 4, 8, 16, 64, 100, 256, 1000]),
                ratio_num=ratio_num, seed=rng.randrange(2 ** 30), cbf=rng.random() < 0.9,
                applycal=rng.random() < 0.35)


def make_exc_dataset(c):
    from harness import v4synth
    int_time = float(c['ratio_num'])
    cbf_int = 2.0
    attrs = {}
    if c['cbf']:
        attrs = {'src_streams': ['corr'], 'corr_int_time': cbf_int, 'corr_n_accs': int(c['n_accs']),
                 'corr_src_streams': ['feng'], 'feng_instrument_dev_name': 'inst',
                 'inst_scale_factor_timestamp': 1712e6}
    sensors, okw = None, None
    if c.get('applycal'):
        # gain calibration applied on the fly: the excision fraction is about the stored (unscaled) weights and
        # must not change with it
        ants = [f'm{i:03}' for i in range(c['n_ants'])]
        pols = sorted(set(c['pols']))
        g = np.array([[2.0, 0.5, 3.0][(i + 2 * j) % 3] for i in range(len(pols)) for j in range(len(ants))],
                     dtype=np.complex64).reshape(len(pols), len(ants))
        attrs = dict(attrs, cal_antlist=ants, cal_pol_ordering=pols, cal_center_freq=1284e6,
                     cal_bandwidth=float(c['F']) * 1e6, cal_n_chans=c['F'])
        sensors = {'cal_product_G': [(-0.5, g)]}
        okw = {'applycal': 'l1.G'}
    syn = v4synth.make_v4(random.Random(c['seed']), T=c['T'], F=c['F'], n_ants=c['n_ants'], pols=c['pols'],
                          need_weights_power_scale=bool(c['nps']), extra_attrs=attrs, int_time=int_time,
                          seed=c['seed'] % (2 ** 31), extra_sensors=sensors, open_kwargs=okw)
    return syn


def lines_exc(c):
    try:
        syn = make_exc_dataset(c)
    except Exception as e:   # noqa: BLE001
        c['_syn'] = e
        return ['c2a a:a']
    c['_syn'] = syn
    st = syn.stored
    cps = [tuple(p) for p in syn.corrprods]
    T, F, B = st['correlator_data'].shape
    sc = '0' if c['nps'] else '1'
    body = (f"{enc(st['correlator_data'].real)} {enc(st['correlator_data'].imag)} {enc(st['weights'])} "
            f"{enc(st['weights_channel'])} - -")
    return [f'vfwspec {sc} {T} {F} {B} {enc_cps(cps)} {body}']


def judge_exc(ctx, c, rep):
    syn = c.pop('_syn')
    if isinstance(syn, Exception):
        return [(f'synthetic v4 data set could not be opened: {type(syn).__name__}: {syn}', c)], False
    d = syn.dataset
    st = syn.stored
    shape = st['correlator_data'].shape
    res = []
    with dask.config.set(scheduler='synchronous'):
        try:
            w = d.weights[:]
        except Exception as ex:   # noqa: BLE001
            return [(f'd.weights[:] raised {type(ex).__name__}: {ex}', c)], False
        try:
            e = d.excision[:]
            eerr = None
        except Exception as ex:   # noqa: BLE001
            e, eerr = None, type(ex).__name__
    ws, us, _, _ = rep.split('|')
    want_w, want_u = dec_scalars(ws), dec_scalars(us)
    bad = mismatch(w, want_w)
    if c.get('applycal'):
        ctx.tag('exc-with-applycal')
        if list(d.applycal_products) != ['l1.G']:
            res.append((f'applycal products {list(d.applycal_products)} instead of l1.G', c))
        bad = []          # calibrated weights are C13's subject; here only the excision fraction
    if bad is None or len(bad):
        decl = 'need_weights_power_scale=%s' % c['nps']
        res.append((f'd.weights[:] ({decl}) ' + (describe(shape, bad[0], w, want_w.reshape(shape))
                                                 if bad is not None else 'shape'), c))
    if not c['cbf']:
        ctx.tag('exc-no-cbf-attrs')
        if eerr is None:
            ctx.advise('excision available without CBF attributes')
        return res, False
    if eerr:
        res.append((f'd.excision raised {eerr} although CBF attributes and unscaled weights are present', c))
        return res, False
    rep2 = common.run_model(PROP, [f"exc {c['n_accs']} {c['ratio_num']}/1 2/1 {enc(want_u)}"])[0]
    A, dd, vals = rep2.split(';')
    want_e = dec_scalars(vals)
    if int(A) != d.accumulations_per_dump:
        res.append((f'accumulations_per_dump {d.accumulations_per_dump} != n_accs*round(int_time/cbf_int_time) = {A}', c))
    bad = mismatch(e, want_e, rtol=RTOL, atol=1e-7)
    if bad is None or len(bad):
        res.append((f'd.excision[:] (n_accs={c["n_accs"]}, cbf dumps per dump={dd}) '
                    + (describe(shape, bad[0], e, want_e.reshape(shape)) if bad is not None else 'shape')
                    + f' for unscaled weight {want_u[bad[0]] if bad is not None else "?"}', c))
    u = want_u / (c['n_accs'])
    if np.any(np.abs(u - np.floor(u) - 0.5) < 1e-12):
        ctx.tag('exc-tie-weight')
    ctx.tag('exc-half-ratio' if c['ratio_num'] % 2 else 'exc-int-ratio', 'exc-nps' if c['nps'] else 'exc-scaled')
    return res, True


# ---------------------------------------------------------------- avg

def gen_avg(rng, big=False):
    T, F, B = rng.randint(1, 8), rng.randint(1, 8), rng.choice([1, 1, 2, 3])
    if big:
        T, F, B = rng.randint(1, 3), rng.randint(1, 3), rng.choice([129, 130, 257])   # crosses bl_step = 128
    n = T * F * B
    dens = rng.choice([0.2, 0.5, 0.8]) if big else rng.choice([0.0, 0.2, 0.5, 0.8, 1.0])
    flags = [rng.random() < dens for _ in range(n)]
    if rng.random() < 0.3:
        # force one whole (t, f) neighbourhood flagged so that all-flagged bins occur
        flags = [True if (i // B) % 2 == 0 else x for i, x in enumerate(flags)]
    re = [rng.randint(-32, 32) / 4 for _ in range(n)]
    im = [rng.randint(-32, 32) / 4 for _ in range(n)]
    w = [rng.choice([0.0, 0.25, 0.5, 1.0, 2.0, 3.0, 7.5]) for _ in range(n)]
    if rng.random() < 0.2:
        # weights scaled by a negative autocorrelation are negative: bins whose weights sum to a negative number (or
        # cancel to zero) are still weight-averaged (resp. fall back to the plain mean)
        w = [rng.choice([-2.0, -1.0, -0.5, 0.5, 1.0, 2.0]) for _ in range(n)]
    return dict(kind='avg', T=T, F=F, B=B, re=re, im=im, w=w, flags=flags,
                timeav=rng.choice([1, 2, 2, 3, 3, 4, 5, rng.randint(1, 10)]),
                chanav=rng.choice([1, 2, 2, 3, 3, 4, 5, rng.randint(1, 10)]), flagav=rng.random() < 0.5)


def lines_avg(c):
    fl = ''.join('1' if x else '0' for x in c['flags']) or '-'
    body = (f"{c['T']} {c['F']} {c['B']} {c['timeav']} {c['chanav']} {'1' if c['flagav'] else '0'} "
            f"{enc(c['re'])} {enc(c['im'])} {enc(c['w'])} {fl}")
    return ['avgspec ' + body, 'avg ' + body]


def parse_av(rep):
    dims, re, im, w, fl = rep.split('|')
    shape = tuple(int(v) for v in dims.split(','))
    flags = np.array([ch == '1' for ch in fl], dtype=bool) if fl != '-' else np.zeros(0, bool)
    return shape, dec_scalars(re), dec_scalars(im), dec_scalars(w), flags


def judge_avg(ctx, c, rep_spec, rep_mirror):
    from katdal.averager import average_visibilities
    T, F, B = c['T'], c['F'], c['B']
    shape = (T, F, B)
    vis = (np.array(c['re'], np.float32) + 1j * np.array(c['im'], np.float32)).astype(np.complex64).reshape(shape)
    w = np.array(c['w'], np.float32).reshape(shape)
    fl = np.array(c['flags'], bool).reshape(shape)
    ts = 1000.0 + 8.0 * np.arange(T)
    fr = 1e9 + 1e6 * np.arange(F)
    try:
        av_vis, av_w, av_f, av_ts, av_fr = average_visibilities(vis, w, fl, ts, fr, timeav=c['timeav'],
                                                                chanav=c['chanav'], flagav=bool(c['flagav']))
    except Exception as e:   # noqa: BLE001
        return [(f'average_visibilities raised {type(e).__name__}: {e} (timeav={c["timeav"]}, chanav={c["chanav"]} '
                 f'on {shape})', c)], False
    res = []
    sshape, sre, sim, sw, sfl = parse_av(rep_spec)
    ctx.tag('avg-or' if c['flagav'] else 'avg-and',
            'avg-timeav>T' if c['timeav'] > T else 'avg-timeav-remainder' if T % c['timeav'] else 'avg-timeav-even',
            'avg-chanav>F' if c['chanav'] > F else 'avg-chanav-remainder' if F % c['chanav'] else 'avg-chanav-even')
    if av_vis.shape != sshape or av_w.shape != sshape or av_f.shape != sshape:
        return [(f'averaged shapes {av_vis.shape}/{av_w.shape}/{av_f.shape} != {sshape} (timeav={c["timeav"]}, '
                 f'chanav={c["chanav"]} on {shape}; trailing remainder dropped)', c)], False
    for nm, got, want in (('visibility real part', av_vis.real, sre), ('visibility imaginary part', av_vis.imag, sim),
                          ('summed weight', av_w, sw)):
        bad = mismatch(got, want, rtol=2e-6, atol=1e-30)
        if bad is None or len(bad):
            res.append((f'averaged {nm} ' + describe(sshape, bad[0], got, want.reshape(sshape))
                        + f' (timeav={c["timeav"]}, chanav={c["chanav"]}, flagav={c["flagav"]})', c))
            break
    if av_f.size and not np.array_equal(av_f.ravel(), sfl):
        i = int(np.nonzero(av_f.ravel() != sfl)[0][0])
        res.append((f'averaged flag {"OR" if c["flagav"] else "AND"} ' + describe(sshape, i, av_f, sfl.reshape(sshape)), c))
    # metadata outputs (Python-side spec: plain means of the kept dumps / channels)
    ta = min(c['timeav'], T)
    if av_ts.shape != (sshape[0],) or av_fr.shape != (sshape[1],):
        res.append((f'averaged timestamps/frequencies shapes {av_ts.shape}/{av_fr.shape} vs data {sshape}', c))
    else:
        wt = ts[:sshape[0] * ta].reshape(-1, ta).mean(axis=1)
        wf = fr[:sshape[1] * c['chanav']].reshape(-1, c['chanav']).mean(axis=1)
        if not (np.allclose(av_ts, wt) and np.allclose(av_fr, wf)):
            res.append(('averaged timestamps/frequencies are not the bin means', c))
    if av_f.size:
        allflag = sfl if not c['flagav'] else None
        if allflag is not None and allflag.any():
            ctx.tag('avg-all-flagged-bin')
    if c['chanav'] > F and not ctx.extra.get('averager_note'):
        ctx.extra['averager_note'] = ('average_visibilities clamps timeav to the number of dumps but not chanav to the '
                                      'number of channels (averager.py:139 clamps flagav instead, with no observable '
                                      'effect): chanav > n_chans leaves zero channel bins.  The property promises '
                                      'nothing about factors larger than the axis; modelled as coded, not a finding.')
    if rep_mirror != rep_spec:
        msh, mre, mim, mw, mfl = parse_av(rep_mirror)
        if msh != sshape or len(mismatch(mre, sre, 1e-12)) or len(mismatch(mw, sw, 1e-12)) or not np.array_equal(mfl, sfl):
            ctx.advise(f'mirror model differs from spec on avg case T={T} F={F} ta={c["timeav"]} ca={c["chanav"]}')
    return res, av_vis.size > 0


# ---------------------------------------------------------------- v3

def gen_v3(rng):
    T, F, B = rng.randint(1, 3), rng.randint(1, 4), rng.randint(1, 4)
    return dict(kind='v3', T=T, F=F, B=B, has_w=rng.random() < 0.7, has_wc=rng.random() < 0.7,
                selected=rng.random() < 0.8,
                w=[rng.choice([0.0, 0.5, 1.0, 3.0, rng.randint(0, 400) / 8]) for _ in range(T * F * B)],
                wc=[rng.choice([0.25, 0.5, 1.0, 2.0, 5.0]) for _ in range(T * F)])


def lines_v3(c):
    return [f"v3 {c['T']} {c['F']} {c['B']} {'1' if c['selected'] else '0'} "
            f"{enc(c['w']) if c['has_w'] else '-'} {enc(c['wc']) if c['has_wc'] else '-'}"]


def judge_v3(ctx, c, rep):
    from katdal.h5datav3 import H5DataV3, dummy_dataset
    T, F, B = c['T'], c['F'], c['B']
    shape = (T, F, B)
    o = H5DataV3.__new__(H5DataV3)          # object stub: only what the `weights` property reads
    o._time_keep = np.ones(T, bool)
    o._freq_keep = np.ones(F, bool)
    o._corrprod_keep = np.ones(B, bool)
    o._keepdims = False
    # mirrors h5datav3.py lines 343-347 (absent datasets become dummy datasets of ones)
    o._weights = (np.array(c['w'], np.float32).reshape(shape) if c['has_w'] else
                  dummy_dataset('dummy_weights', shape=shape, dtype=np.float32, value=1.0))
    o._weights_channel = (np.array(c['wc'], np.float32).reshape(T, F) if c['has_wc'] else
                          dummy_dataset('dummy_weights_channel', shape=(T, F), dtype=np.float32, value=1.0))
    o._weights_select = [0] if c['selected'] else []
    try:
        got = np.asarray(H5DataV3.weights.fget(o)[:])
    except Exception as e:   # noqa: BLE001
        return [(f'v3 weights transform raised {type(e).__name__}: {e}', c)], False
    want = dec_scalars(rep)
    ctx.tag('v3-' + ('w' if c['has_w'] else 'now') + ('-wc' if c['has_wc'] else '-nowc')
            + ('' if c['selected'] else '-deselected'))
    bad = mismatch(got, want)
    if got.shape != shape or bad is None or len(bad):
        where = describe(shape, bad[0], got, want.reshape(shape)) if bad is not None and len(bad) else f'shape {got.shape}'
        return [(f'v3 weights (weights {"present" if c["has_w"] else "absent"}, weights_channel '
                 f'{"present" if c["has_wc"] else "absent"}, selected={c["selected"]}) {where}', c)], True
    return [], True


def try_h5synth(ctx):
    """end-to-end v3 file through the shared builder, when it exists and the file opens"""
    try:
        from harness import h5synth
    except Exception:   # noqa: BLE001
        ctx.tag('v3-h5synth-absent')
        return []
    import h5py
    out = []
    for hw, hwc in ((True, True), (True, False), (False, True), (False, False)):
        out += _try_h5synth_one(ctx, h5synth, h5py, hw, hwc)
    return out


def _try_h5synth_one(ctx, h5synth, h5py, hw, hwc):
    """one v3 file with the stored weights and / or the per-channel weights present"""
    tmp = tempfile.mkdtemp(prefix='c15_v3_')
    try:
        path = os.path.join(tmp, 'v3.h5')
        try:
            syn = h5synth.make_v3(path, ctx.rng, with_weights=hw, with_weights_channel=hwc)
            d = getattr(syn, 'dataset', None)
            if d is None:
                import katdal
                d = katdal.open(path)
            got = np.asarray(d.weights[:])
        except Exception as e:   # noqa: BLE001
            return [(f'a v3 file with weights {"present" if hw else "absent"} and weights_channel '
                     f'{"present" if hwc else "absent"} could not be opened / read: {type(e).__name__}: {str(e)[:100]}',
                     dict(kind='v3file', hw=hw, hwc=hwc))]
        with h5py.File(path, 'r') as f:
            g = f['Data']
            w = g['weights'][...] if 'weights' in g else None
            wc = g['weights_channel'][...] if 'weights_channel' in g else None
        T = got.shape[0]
        w = np.ones(got.shape, np.float32) if w is None else w[:T]
        wc = np.ones(got.shape[:2], np.float32) if wc is None else wc[:T]
        ctx.tag('v3-h5synth-end-to-end' + ('-w' if hw else '-now') + ('-wc' if hwc else '-nowc'))
        if w.shape != got.shape:
            ctx.advise('h5synth v3 default selection is not the full array; end-to-end comparison skipped')
            return []
        want = w * wc[..., np.newaxis]
        if not np.allclose(got, want, rtol=RTOL):
            return [(f'v3 file (weights {"present" if hw else "absent"}, weights_channel {"present" if hwc else "absent"}): d.weights[:] != weights * weights_channel with absent arrays read as one', dict(kind='v3file', hw=hw, hwc=hwc))]
        # indexed reads, scalars included, of the file opened with and without keepdims=True: the product of the two
        # stored arrays at the requested elements (keepdims only keeps the indexed-away axes as axes of length 1)
        import katdal
        Tn, Fn, Bn = want.shape
        t, f, b = ctx.rng.randrange(Tn), ctx.rng.randrange(Fn), ctx.rng.randrange(Bn)
        keys = [(t,), (t, slice(0, Fn)), (t, f), (slice(None), f), (slice(None), slice(None), b), (t, slice(None), b),
                (slice(0, Tn, 2), f, b), (t, f, b)]
        for keep in (False, True):
            dk = katdal.open(path, keepdims=True) if keep else d
            for key in keys:
                kk = tuple(slice(k, k + 1) if (keep and isinstance(k, int)) else k for k in key)
                exp = want[kk]
                try:
                    gotk = np.asarray(dk.weights[key])
                    visshape = np.asarray(dk.vis[key]).shape
                except Exception as e:   # noqa: BLE001
                    return [(f'v3 file opened with keepdims={keep}: d.weights[{key}] raised {type(e).__name__}: '
                             f'{str(e)[:100]}', dict(kind='v3file', hw=hw, hwc=hwc))]
                if gotk.shape != exp.shape or gotk.shape != visshape or not np.allclose(gotk, exp, rtol=RTOL):
                    return [(f'v3 file opened with keepdims={keep}: d.weights[{key}] has shape {gotk.shape} (vis: '
                             f'{visshape}) values {gotk.ravel()[:4].tolist()}, the product of the stored arrays there has '
                             f'shape {exp.shape} values {exp.ravel()[:4].tolist()}', dict(kind='v3file', hw=hw, hwc=hwc))]
        ctx.tag('v3-h5synth-indexed-keepdims')
        return []
    finally:
        shutil.rmtree(tmp, ignore_errors=True)


# ---------------------------------------------------------------- driver

KINDS = {
    'c2a': (gen_c2a, lines_c2a, judge_c2a),
    'kern': (gen_kern, lines_kern, judge_kern),
    'wps': (gen_wps, lines_wps, judge_wps),
    'vfw': (gen_vfw, lines_vfw, judge_vfw),
    'vv': (gen_vv, lines_vv, judge_vv),
    'exc': (gen_exc, lines_exc, judge_exc),
    'avg': (gen_avg, lines_avg, judge_avg),
    'v3': (gen_v3, lines_v3, judge_v3),
}


def clean(case):
    return {k: v for k, v in case.items() if not k.startswith('_')}


def evaluate(ctx, cases):
    """returns list of (case, what)"""
    out = []
    by_kind = {}
    for c in cases:
        by_kind.setdefault(c['kind'], []).append(c)
    for kind, cs in by_kind.items():
        _, mk_lines, judge = KINDS[kind]
        all_lines, spans = [], []
        for c in cs:
            ls = mk_lines(c)
            spans.append((len(all_lines), len(ls)))
            all_lines += ls
        replies = common.run_model(PROP, all_lines)
        for c, (s, n) in zip(cs, spans):
            reps = replies[s:s + n]
            if any(r == 'bad-op' for r in reps):
                raise common.Broken(f'driver rejected a {kind} request: {all_lines[s][:200]}')
            r = judge(ctx, c, *reps)
            viols, nontrivial = r
            key = all_lines[s][:4000]
            ctx.count(key, nontrivial, sample={'kind': kind, 'request': all_lines[s][:160], 'model': reps[0][:120]})
            ctx.tag('kind-' + kind)
            for v in viols:
                if isinstance(v, tuple):
                    what, cc = v
                else:
                    what, cc = v, c
                out.append((clean(cc), what))
    return out


def shrink_avg(ctx, case, what):
    """one bin, one baseline"""
    T, F, B = case['T'], case['F'], case['B']
    ta, ca = min(case['timeav'], T), case['chanav']
    if ca > F or ta == 0:
        return case, what
    key_of = (lambda w: w.split('[')[0][:30])

    def crop(t0, f0, b):
        idx = [((t * F + f) * B + b) for t in range(t0, t0 + ta) for f in range(f0, f0 + ca)]
        c = dict(case, T=ta, F=ca, B=1)
        for nm in ('re', 'im', 'w', 'flags'):
            c[nm] = [case[nm][i] for i in idx]
        return c
    for t0 in range(0, T // ta * ta, ta):
        for f0 in range(0, F // ca * ca, ca):
            for b in range(B):
                cand = crop(t0, f0, b)
                try:
                    bad = evaluate(common.Ctx(ctx.prop, ctx.tier, ctx.seed), [cand])
                except Exception:   # noqa: BLE001
                    continue
                hit = [(c, w) for c, w in bad if key_of(w) == key_of(what)]
                if hit:
                    return hit[0]
    return case, what


def shrink(ctx, case, what):
    """single time-frequency sample that still fails (array kinds); kern is already one triple"""
    kind = case.get('kind')
    if kind == 'avg':
        return shrink_avg(ctx, case, what)
    if kind not in ('wps', 'vfw') or case.get('vv'):
        return case, what
    T, F, B = case['T'], case['F'], len(case['cps'])
    key_of = (lambda w: w.split('[')[0][:40])
    for t in range(T):
        for f in range(F):
            cand = json.loads(json.dumps(case))
            cand['T'] = cand['F'] = 1
            lo = (t * F + f) * B
            for nm in ('re', 'im', 'w', 'w8'):
                if nm in cand:
                    cand[nm] = case[nm][lo:lo + B]
            if 'wc' in cand:
                cand['wc'] = [case['wc'][t * F + f]]
            if 'chunks' in cand:
                for k in cand['chunks']:
                    cand['chunks'][k][0] = [1]
                    cand['chunks'][k][1] = [1]
            try:
                bad = evaluate(common.Ctx(ctx.prop, ctx.tier, ctx.seed), [cand])
            except Exception:   # noqa: BLE001
                continue
            hit = [(c, w) for c, w in bad if key_of(w) == key_of(what)]
            if hit:
                return hit[0]
    return case, what


def m_inf_autocorr(case, what):
    """known finding: dividing by an autocorrelation of +/-inf yields weight 0 (1/inf = 0 is finite,
    so the not-finite test of the kernel does not fire) instead of the documented tiny positive weight"""
    return what.startswith(KF_INF) and case.get('kind') in ('kern', 'wps', 'vfw')


def corpus_cases():
    d = os.path.join(common.VERIF, 'corpus', PROP)
    out = []
    if os.path.isdir(d):
        for nm in sorted(os.listdir(d)):
            out.append(json.load(open(os.path.join(d, nm)))['case'])
    return out


def fixed_cases():
    """hand-picked cases run on every seed"""
    cps = [['m000h', 'm001v'], ['m001v', 'm001v'], ['m000h', 'm000h'], ['m001v', 'm000h']]
    base = dict(kind='wps', T=1, F=1, cps=cps, im=[1.0, 0.0, 0.0, -1.0], w=[3.0, 3.0, 3.0, 3.0], use_out=False)
    out = []
    for a in (0.0, math.nan, math.inf, -math.inf, 4.0, -2.0):
        for dv in (True, False):
            out.append(dict(base, re=[5.0, 2.0, a, 7.0], divide=dv))
    return out


def run(ctx):
    ctx.matchers['c15_inf_autocorr_weight_zero'] = m_inf_autocorr
    build = common.build_and_audit(PROP, ctx.tier)
    rng = ctx.rng
    cases = corpus_cases() + fixed_cases()
    plan = [('c2a', ctx.q(120, 3000)), ('kern', ctx.q(3, 40)), ('wps', ctx.q(60, 1500)), ('vfw', ctx.q(70, 1500)),
            ('vv', ctx.q(4, 40)), ('exc', ctx.q(10, 150)), ('avg', ctx.q(120, 3000)), ('v3', ctx.q(20, 200))]
    if not build['build_ok']:
        plan = [(k, n * 4) for k, n in plan]
    # in every run whatever the seed: more than 128 baselines (the averager works in blocks of 128) whose flags differ
    # between a baseline of a later block and the baseline at the same position of the first block
    for B_, tav, cav in ((130, 1, 1), (257, 2, 1), (129, 1, 2)):
        T_, F_ = 2, 2
        n_ = T_ * F_ * B_
        cases.append(dict(kind='avg', T=T_, F=F_, B=B_, re=[float((i * 7) % 13) for i in range(n_)],
                          im=[float((i * 3) % 5) for i in range(n_)], w=[1.0 + (i % 3) for i in range(n_)],
                          flags=[(i % B_) >= 128 and ((i % B_) + (i // B_)) % 2 == 0 for i in range(n_)],
                          timeav=tav, chanav=cav, flagav=False))
    # in every run whatever the seed: quotients SDP / CBF dump period of 1.5 and 3.5 (where rounding and truncating
    # to a whole number of correlator dumps differ), with the correlator stream declared
    for rn in (3, 7):
        cases.append(dict(gen_exc(rng), ratio_num=rn, cbf=True))
    for kind, n in plan:
        cases += [KINDS[kind][0](rng) for _ in range(n)]
    cases += [gen_avg(rng, big=True) for _ in range(ctx.q(5, 40))]
    # at least two Van Vleck reconstructions per run
    cases += [gen_vfw(rng, vv=True) for _ in range(ctx.q(2, 30))]
    bad = evaluate(ctx, cases)
    if not table_monotone_test(ctx):
        bad.append((dict(kind='vv-table'), 'the Van Vleck lookup table built by autocorr_lookup_table is not monotone'))
    for w, c in try_h5synth(ctx):
        bad.append((c, w))
    for c, w in bad:
        ctx.violation(c, w)
    ctx.assumptions = ['binary32 rounding within relative 1e-6 of exact arithmetic on the generated domain '
                       '(magnitudes 2^-30..2^30); overflow/underflow behaviour only compared against the Float32 '
                       'mirror kernel (advisory)',
                       'sign of zero not modelled', 'products lists have no duplicate entries',
                       'Van Vleck table monotone: run-time test']
    return common.finish(ctx, build, RULE, CHECKER, TRUSTED, shrink=lambda c, w: shrink(ctx, c, w))


def replay(ctx, rep):
    ctx.matchers['c15_inf_autocorr_weight_zero'] = m_inf_autocorr
    build = common.build_and_audit(PROP, 'quick')
    c = rep['case']
    if c and c.get('kind') in KINDS:
        for cc, w in evaluate(ctx, [c]):
            ctx.violation(cc, w)
    return common.finish(ctx, build, RULE, CHECKER, TRUSTED)
