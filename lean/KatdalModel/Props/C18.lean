/-
  C18 — Telstate stream resolution and flag-stream upgrade.

  "Any metadata key or sensor of a v4 data set is taken from the most specific namespace that
   defines it, in the order capture block + stream, capture block + inherited streams, capture
   block, stream, inherited streams, global; capture block ID and stream name default to those
   recorded in the file and can be overridden by URL query or keyword, a stream that is not of
   type sdp.vis is refused and an unreadable source is reported as not found.  An archived flags
   stream whose source is the opened stream replaces the stream's own flags unless disabled, an
   incompatible channel or baseline shape is an error, and when the streams have different
   numbers of dumps the data set spans the longer one with the shorter one's absent dumps
   treated as lost data."

  Model: KatdalModel/Model/Telstate.lean (mirror of view_capture_stream, view_l0_capture_stream,
  _shorten_key, the sensor dict of TelstateDataSource, from_url's kwargs merge, _upgrade_flags,
  _upgrade_chunk_info, _align_chunk_info on top of a prefix-list model of katsdptelstate views).
  Spec side: `specOrder`, "first defining namespace", `qualifies`.

  Sensors (mutable keys) are registered under their short name and read through the view, so a
  sensor defined in two namespaces is taken from the most specific one
  (`c18_sensor_most_specific`; before the repair of C18-sensor-last-sorted-key in /repo the dict
  kept the lexicographically last full key per short name and the statement held only when a single
  namespace defined the sensor).
-/
import KatdalModel.Lemmas.Telstate
open Np Telstate TelstateL

namespace C18

/-! ### prefix order -/

/-- For any inherit chain `stream → i₁ → … → iₖ` (k ≥ 0, last one without `inherit` key) the view
    built by `view_capture_stream` searches, in this order: capture block + stream, capture block +
    i₁ … capture block + iₖ, capture block, stream, i₁ … iₖ, and then the prefixes that were there
    before (the global namespace for a root telstate) — provided the loop fuel covers the chain. -/
theorem c18_prefix_order (st : Store) (v : List Key) (cb s : Key) (streams : List Key) (fuel : Nat)
    (hc : IsChain st s streams) (hf : streams.length ≤ fuel) :
    viewCaptureStream fuel st v cb s = some (specOrder cb streams v) ∧ streams.head? = some s := by
  rw [viewCaptureStream_eq, chain_complete st s streams hc fuel hf]
  exact ⟨rfl, isChain_head st s streams hc⟩

/-- conversely, whatever `view_capture_stream` returns is the documented order for the inherit chain -/
theorem c18_prefix_order_sound (st : Store) (v out : List Key) (cb s : Key) (fuel : Nat)
    (h : viewCaptureStream fuel st v cb s = some out) :
    ∃ streams, IsChain st s streams ∧ out = specOrder cb streams v := by
  rw [viewCaptureStream_eq] at h
  cases hch : chain fuel st s with
  | none => simp [hch] at h
  | some streams =>
    simp only [hch, Option.map_some, Option.some.injEq] at h
    exact ⟨streams, chain_sound st fuel s streams hch, h.symm⟩

/-- on a cyclic inherit chain the loop never ends, whatever the fuel (the implementation hangs) -/
theorem c18_cycle_diverges (st : Store) (v : List Key) (cb s : Key) (fuel : Nat)
    (hcyc : ∀ n, (follow st n s).isSome) : viewCaptureStream fuel st v cb s = none := by
  rw [viewCaptureStream_eq, chain_cycle st fuel s hcyc]; rfl

def k (s : String) : Key := s.toList

/-- example store: stream `l0` inherits from `base` -/
def st0 : Store :=
  [(k "l0_inherit", .str (k "base")), (k "l0_stream_type", .str (k "sdp.vis")),
   (k "cb_l0_x", .num 1), (k "cb_x", .num 3), (k "base_x", .num 5), (k "x", .num 6),
   (k "capture_block_id", .str (k "cb")), (k "stream_name", .str (k "l0"))]

example : viewCaptureStream 5 st0 rootView (k "cb") (k "l0")
    = some [k "cb_l0_", k "cb_base_", k "cb_", k "l0_", k "base_", k ""] := by decide
example : viewCaptureStream 5 [(k "a_inherit", .str (k "b")), (k "b_inherit", .str (k "a"))] rootView (k "cb") (k "a")
    = none := by decide

/-! ### most specific namespace -/

/-- A key defined (with value `val`) in the `i`-th namespace of the view and in none of the earlier
    ones resolves to `val`, whatever the later namespaces hold: for *any* subset of namespaces that
    define the key the first one in view order wins. -/
theorem c18_most_specific (st : Store) (v : List Key) (key : Key) (i : Nat) (hi : i < v.length) (val : Val)
    (hdef : st.get (v[i] ++ key) = some val)
    (hnone : ∀ j (hj : j < i), st.get (v[j]'(by omega) ++ key) = none) :
    Telstate.get st v key = some val :=
  get_first st v key i hi val hdef hnone

/-- … and a key that no namespace of the view defines is absent (KeyError / default) -/
theorem c18_undefined (st : Store) (v : List Key) (key : Key) :
    Telstate.get st v key = none ↔ ∀ p ∈ v, st.get (p ++ key) = none :=
  get_none st v key

/-- combined with the prefix order: in the view of a capture stream the lookup order is the
    documented one -/
theorem c18_most_specific_capture_stream (st : Store) (cb s : Key) (streams : List Key) (fuel : Nat)
    (hc : IsChain st s streams) (hf : streams.length ≤ fuel) (out : List Key)
    (hout : viewCaptureStream fuel st rootView cb s = some out) (key : Key) (i : Nat)
    (hi : i < (specOrder cb streams rootView).length) (val : Val)
    (hdef : st.get ((specOrder cb streams rootView)[i] ++ key) = some val)
    (hnone : ∀ j (hj : j < i), st.get ((specOrder cb streams rootView)[j]'(by omega) ++ key) = none) :
    Telstate.get st out key = some val := by
  have := (c18_prefix_order st rootView cb s streams fuel hc hf).1
  rw [this] at hout
  injection hout with hout
  subst hout
  exact get_first st _ key i hi val hdef hnone

example : Telstate.get st0 [k "cb_l0_", k "cb_base_", k "cb_", k "l0_", k "base_", k ""] (k "x") = some (.num 1) := by
  decide
example : Telstate.get (st0.filter (·.1 ≠ k "cb_l0_x")) [k "cb_l0_", k "cb_base_", k "cb_", k "l0_", k "base_", k ""]
    (k "x") = some (.num 3) := by decide

/-! ### key shortening and sensors -/

/-- `_shorten_key` strips the first prefix (in view order) that the key starts with; it returns the
    empty string iff no prefix fits or the key *is* that prefix. -/
theorem c18_shorten (v : List Key) (key : Key) :
    (∀ i (hi : i < v.length), v[i].isPrefixOf key = true →
        (∀ j (hj : j < i), (v[j]'(by omega)).isPrefixOf key = false) →
        v[i] ++ shortenKey v key = key) ∧
    ((∀ p ∈ v, p.isPrefixOf key = false) → shortenKey v key = []) := by
  constructor
  · intro i hi hp hn
    have := find_first (fun p : Key => p.isPrefixOf key) v i hi hp hn
    simp only [shortenKey, this]
    exact isPrefixOf_append_drop _ _ hp
  · intro h
    have : v.find? (fun p => p.isPrefixOf key) = none := by
      apply List.find?_eq_none.mpr
      intro p hp
      simp [h p hp]
    simp [shortenKey, this]

example : shortenKey [k "cb_l0_", k "cb_", k "l0_", k ""] (k "cb_l0_x") = k "x" := by decide
example : shortenKey [k "cb_l0_", k "cb_", k "l0_", k ""] (k "cb_y") = k "y" := by decide
example : shortenKey [k "cb_l0_", k "cb_", k "l0_"] (k "other_y") = k "" := by decide
example : shortenKey [k "cb_l0_", k "cb_", k "l0_"] (k "cb_") = k "" := by decide

/-- **A sensor is taken from the most specific namespace that defines it**: whenever some mutable key shortens to
    `name`, reading the sensor `name` is reading `name` through the view (first prefix in view order that holds it).
    (Before the repair of C18-sensor-last-sorted-key in /repo this held only when a single namespace defined the
    sensor: the dict kept the full key that came last in sorted order.) -/
theorem c18_sensor_most_specific (st : Store) (v : List Key) (keys : List Key) (name : Key)
    (hname : name ≠ []) (hex : ∃ key ∈ keys, shortenKey v key = name) :
    sensorRead st v keys name = Telstate.get st v name := by
  have : (keys.any fun k => decide (shortenKey v k = name)) = true := by
    obtain ⟨key, hk, hs⟩ := hex
    exact List.any_eq_true.mpr ⟨key, hk, by simpa using hs⟩
  simp [sensorRead, sensorKey, hname, this]

/-- a name no mutable key shortens to is not a sensor of the data set -/
theorem c18_sensor_absent (st : Store) (v : List Key) (keys : List Key) (name : Key)
    (hno : ∀ key ∈ keys, shortenKey v key ≠ name) : sensorRead st v keys name = none := by
  have : (keys.any fun k => decide (shortenKey v k = name)) = false := by
    apply List.any_eq_false.mpr
    intro key hk
    simpa using hno key hk
  simp [sensorRead, sensorKey, this]

-- two namespaces define the sensor: the capture-block one (more specific) answers
example : sensorRead [(k "cb_s", .num 1), (k "l0_s", .num 2)] [k "cb_l0_", k "cb_", k "l0_", k ""]
    [k "cb_s", k "l0_s"] (k "s") = some (.num 1) := by decide

/-! ### defaults and overrides -/

/-- An explicit non-empty argument is used as is; a missing (`None`) or empty argument falls back to
    the value recorded in the file; without either the request is refused (ValueError). -/
theorem c18_arg_or_default (st : Store) (v : List Key) (arg : Option Key) (key : Key) :
    (∀ c cs, arg = some (c :: cs) → argOrDefault st v arg key = .ok (c :: cs)) ∧
    ((arg = none ∨ arg = some []) → ∀ x, Telstate.get st v key = some (.str x) → argOrDefault st v arg key = .ok x) ∧
    ((arg = none ∨ arg = some []) → Telstate.get st v key = none → argOrDefault st v arg key = .error .value) := by
  refine ⟨?_, ?_, ?_⟩
  · rintro c cs rfl; rfl
  · rintro (rfl | rfl) x hx <;> simp [argOrDefault, hx]
  · rintro (rfl | rfl) hx <;> simp [argOrDefault, hx]

/-- `from_url`: a keyword argument beats the same parameter in the URL query; the query is used when
    the keyword is absent. -/
theorem c18_keyword_over_query (query : List (Key × Key)) (kwargs : List (Key × KwVal)) (key : Key) :
    (∀ v, dictGet kwargs key = some v → mergedGet query kwargs key = some v) ∧
    (dictGet kwargs key = none → mergedGet query kwargs key = (dictGet query key).map some) := by
  constructor
  · intro v h; simp [mergedGet, h]
  · intro h; simp [mergedGet, h]

/-- What `view_l0_capture_stream` returns: the capture block / stream are the arguments or the file
    defaults, the view is the documented order for the stream's inherit chain, and the stream type
    seen through that view is `sdp.vis`. -/
theorem c18_defaults_overrides (st : Store) (v out : List Key) (cbArg snArg : Option Key) (cb sn : Key)
    (fuel : Nat) (h : viewL0 fuel st v cbArg snArg = .ok (out, cb, sn)) :
    argOrDefault st v cbArg kCbid = .ok cb ∧ argOrDefault st v snArg kStream = .ok sn ∧
    (∃ streams, IsChain st sn streams ∧ out = specOrder cb streams v) ∧
    Telstate.get st out kType = some (.str vVis) := by
  unfold viewL0 at h
  cases h1 : argOrDefault st v cbArg kCbid with
  | error e => simp [h1, bind, Except.bind] at h
  | ok cb' =>
    cases h2 : argOrDefault st v snArg kStream with
    | error e => simp [h1, h2, bind, Except.bind] at h
    | ok sn' =>
      simp only [h1, h2, bind, Except.bind] at h
      cases h3 : viewCaptureStream fuel st v cb' sn' with
      | none => simp [h3] at h
      | some vv =>
        simp only [h3] at h
        split at h
        · rename_i hty
          injection h with h
          simp only [Prod.mk.injEq] at h
          obtain ⟨rfl, rfl, rfl⟩ := h
          exact ⟨rfl, rfl, c18_prefix_order_sound st v vv cb' sn' fuel h3, hty⟩
        · cases h

/-- A stream whose type (seen through its own view) is anything but `sdp.vis` — including a missing
    `stream_type` — is refused with ValueError. -/
theorem c18_wrong_type_refused (st : Store) (v vv : List Key) (cbArg snArg : Option Key) (cb sn : Key) (fuel : Nat)
    (h1 : argOrDefault st v cbArg kCbid = .ok cb) (h2 : argOrDefault st v snArg kStream = .ok sn)
    (h3 : viewCaptureStream fuel st v cb sn = some vv)
    (hty : Telstate.get st vv kType ≠ some (.str vVis)) :
    viewL0 fuel st v cbArg snArg = .error .value := by
  simp [viewL0, h1, h2, h3, hty, bind, Except.bind]

example : fromUrlView 5 st0 [] [] = .ok ([k "cb_l0_", k "cb_base_", k "cb_", k "l0_", k "base_", k ""], k "cb", k "l0") := by
  decide
example : fromUrlView 5 st0 [(kStream, k "base")] [] = .error .value := by decide
example : fromUrlView 5 st0 [(kStream, k "base")] [(kStream, some (k "l0"))]
    = .ok ([k "cb_l0_", k "cb_base_", k "cb_", k "l0_", k "base_", k ""], k "cb", k "l0") := by decide
example : fromUrlView 5 st0 [(kStream, k "base")] [(kStream, none)]
    = .ok ([k "cb_l0_", k "cb_base_", k "cb_", k "l0_", k "base_", k ""], k "cb", k "l0") := by decide
example : fromUrlView 5 (st0.filter (·.1 ≠ kCbid)) [] [] = .error .value := by decide

/-! ### flag-stream upgrade -/

/-- an archived stream that does not qualify (wrong type, or the opened stream is not among its
    sources) leaves the chunk info untouched -/
theorem c18_upgrade_skips (fuel : Nat) (st : Store) (v : List Key) (cb sn s : Key) (ci ci' : ChunkInfo)
    (hq : qualifies fuel st v cb sn s = false) (h : upgradeStep fuel st v cb sn ci s = .ok ci') : ci' = ci := by
  unfold upgradeStep at h
  unfold qualifies at hq
  cases hv : viewCaptureStream fuel st v cb s with
  | none => simp [hv] at h
  | some vs =>
    simp only [hv] at h hq
    split at h
    · injection h with h; exact h.symm
    · rename_i hty
      have hty' : Telstate.get st vs kType = some (.str vFlags) := by simpa using hty
      cases hs : Telstate.get st vs kSrc with
      | none => simp [hs] at h
      | some val =>
        cases val with
        | strs src =>
          simp only [hs, hty', beq_self_eq_true, Bool.true_and] at h hq
          simp only [hq] at h
          simp at h
          exact h.symm
        | str _ => simp [hs] at h
        | info _ => simp [hs] at h
        | num _ => simp [hs] at h

/-- a qualifying stream replaces chunk info by `_upgrade_chunk_info` of its own chunk info -/
theorem c18_upgrade_applies (fuel : Nat) (st : Store) (v vs : List Key) (cb sn s : Key) (ci fi : ChunkInfo)
    (hv : viewCaptureStream fuel st v cb s = some vs)
    (hq : qualifies fuel st v cb sn s = true) (hfi : Telstate.get st vs kChunkInfo = some (.info fi)) :
    upgradeStep fuel st v cb sn ci s = upgradeChunkInfo ci fi := by
  unfold qualifies at hq
  simp only [hv, Bool.and_eq_true, beq_iff_eq] at hq
  obtain ⟨hty, hsrc⟩ := hq
  unfold upgradeStep
  simp only [hv, hty, ne_eq, not_true_eq_false, if_false]
  cases hs : Telstate.get st vs kSrc with
  | none => simp [hs] at hsrc
  | some val =>
    cases val with
    | strs src =>
      simp only [hs] at hsrc
      have hmem : sn ∈ src := by simpa using hsrc
      simp [hmem, hfi]
    | str _ => simp [hs] at hsrc
    | info _ => simp [hs] at hsrc
    | num _ => simp [hs] at hsrc

theorem ciInsert_lookup (ci : ChunkInfo) (key : Key) (v : ArrInfo) (x : Key) :
    (ciInsert ci key v).lookup x = if x = key then some v else ci.lookup x := by
  induction ci with
  | nil =>
    by_cases hx : x = key
    · simp [ciInsert, hx]
    · have : (x == key) = false := by simpa using hx
      simp [ciInsert, List.lookup, hx, this]
  | cons ab t ih =>
    obtain ⟨a, b⟩ := ab
    by_cases ha : a = key
    · subst ha
      by_cases hx : x = a
      · simp [ciInsert, hx]
      · have : (x == a) = false := by simpa using hx
        simp [ciInsert, List.lookup, hx, this]
    · by_cases hxa : x = a
      · subst hxa
        simp [ciInsert, List.lookup, ha]
      · have : (x == a) = false := by simpa using hxa
        simp [ciInsert, List.lookup, ha, this, ih]

/-- one array of the improved info: the dump-independent part of the shape (channels, baselines)
    must match, otherwise ValueError; on success that array is replaced / added and every other
    array is untouched -/
theorem c18_upgrade_array (ci : ChunkInfo) (key : Key) (imp : ArrInfo) :
    (((ci.lookup key).getD imp).shape.tail ≠ imp.shape.tail →
        upgradeChunkInfo ci [(key, imp)] = .error .value) ∧
    (((ci.lookup key).getD imp).shape.tail = imp.shape.tail →
        ∃ ci', upgradeChunkInfo ci [(key, imp)] = .ok ci' ∧
          ∀ x, ci'.lookup x = if x = key then some imp else ci.lookup x) := by
  constructor
  · intro h
    have h' : ¬ imp.shape.tail = ((ci.lookup key).getD imp).shape.tail := fun e => h e.symm
    simp [upgradeChunkInfo, List.foldlM, h', bind, Except.bind]
  · intro h
    refine ⟨ciInsert ci key imp, ?_, ciInsert_lookup ci key imp⟩
    simp [upgradeChunkInfo, List.foldlM, h, bind, Except.bind, pure, Except.pure]

/-- upgrading disabled ⇒ chunk info comes from the opened stream alone (then aligned);
    no `sdp_archived_streams` key ⇒ likewise -/
theorem c18_upgrade_disabled (fuel : Nat) (st : Store) (v : List Key) (cb sn : Key) (ci : ChunkInfo)
    (hci : Telstate.get st v kChunkInfo = some (.info ci)) :
    sourceChunkInfo fuel st v cb sn false = alignChunkInfo ci ∧
    (Telstate.get st v kArchived = none → sourceChunkInfo fuel st v cb sn true = alignChunkInfo ci) := by
  constructor
  · simp [sourceChunkInfo, hci, bind, Except.bind, pure, Except.pure]
  · intro h
    simp [sourceChunkInfo, hci, upgradeFlags, h, bind, Except.bind, pure, Except.pure]

/-- every archived stream can be viewed and every archived `sdp.flags` stream lists its sources -/
def archivedOk (fuel : Nat) (st : Store) (v : List Key) (cb s : Key) : Prop :=
  ∃ vs, viewCaptureStream fuel st v cb s = some vs ∧
    (Telstate.get st vs kType = some (.str vFlags) → ∃ src, Telstate.get st vs kSrc = some (.strs src))

theorem step_nonqual (fuel : Nat) (st : Store) (v : List Key) (cb sn s : Key) (ci : ChunkInfo)
    (hok : archivedOk fuel st v cb s) (hq : qualifies fuel st v cb sn s = false) :
    upgradeStep fuel st v cb sn ci s = .ok ci := by
  obtain ⟨vs, hvs, hsrc⟩ := hok
  unfold qualifies at hq
  unfold upgradeStep
  simp only [hvs] at hq ⊢
  by_cases hty : Telstate.get st vs kType = some (.str vFlags)
  · obtain ⟨src, hs⟩ := hsrc hty
    simp only [hty, hs, beq_self_eq_true, Bool.true_and] at hq
    have hnm : ¬ sn ∈ src := by simpa using hq
    simp [hty, hs, hnm]
  · simp [hty]

/-- the whole loop: streams that do not qualify (not of type `sdp.flags`, or the opened stream is not
    among their `src_streams`) can be dropped from `sdp_archived_streams` without changing the
    outcome; in particular with no qualifying stream the chunk info is unchanged -/
theorem c18_upgrade (fuel : Nat) (st : Store) (v : List Key) (cb sn : Key) :
    ∀ (archived : List Key) (ci : ChunkInfo),
      (∀ s ∈ archived, archivedOk fuel st v cb s) →
      archived.foldlM (upgradeStep fuel st v cb sn) ci
        = (archived.filter (qualifies fuel st v cb sn)).foldlM (upgradeStep fuel st v cb sn) ci := by
  intro archived
  induction archived with
  | nil => intro ci _; rfl
  | cons s t ih =>
    intro ci hok
    have hok' : ∀ x ∈ t, archivedOk fuel st v cb x := fun x hx => hok x (by simp [hx])
    cases hq : qualifies fuel st v cb sn s with
    | true =>
      simp only [List.filter_cons, hq, if_true, List.foldlM_cons]
      cases hs : upgradeStep fuel st v cb sn ci s with
      | error e => rfl
      | ok c =>
        simp only [bind, Except.bind]
        exact ih c hok'
    | false =>
      simp only [List.filter_cons, hq, Bool.false_eq_true, if_false, List.foldlM_cons]
      rw [step_nonqual fuel st v cb sn s ci (hok s (by simp)) hq]
      simp only [bind, Except.bind]
      exact ih ci hok'

theorem c18_upgrade_none_qualify (fuel : Nat) (st : Store) (v : List Key) (cb sn : Key)
    (archived : List Key) (ci : ChunkInfo) (hok : ∀ s ∈ archived, archivedOk fuel st v cb s)
    (hq : ∀ s ∈ archived, qualifies fuel st v cb sn s = false) :
    archived.foldlM (upgradeStep fuel st v cb sn) ci = .ok ci := by
  rw [c18_upgrade fuel st v cb sn archived ci hok]
  have : archived.filter (qualifies fuel st v cb sn) = [] := by
    apply List.filter_eq_nil_iff.mpr
    intro a ha
    simp [hq a ha]
  rw [this]; rfl

/-! ### alignment: the data set spans the longer stream -/

/-- After `_align_chunk_info` every array has the same number of dumps, namely the maximum over
    the arrays; arrays that were shorter keep their chunks and get (max - n) extra one-dump chunks;
    the remaining dimensions are untouched; arrays that already had the maximum are unchanged. -/
theorem c18_span_longer (ci out : ChunkInfo) (h : alignChunkInfo ci = .ok out) :
    ∃ maxD, (∀ kv ∈ ci, kv.2.shape.headD 0 ≤ maxD) ∧ (∃ kv ∈ ci, kv.2.shape.headD 0 = maxD) ∧
      out.length = ci.length ∧
      ∀ i (hi : i < ci.length) (ho : i < out.length),
        let a := ci[i]; let b := out[i]
        b.1 = a.1 ∧ b.2.prefix_ = a.2.prefix_ ∧
        (a.2.shape.headD 0 = maxD → b = a) ∧
        (a.2.shape.headD 0 < maxD →
          b.2.shape = maxD :: a.2.shape.tail ∧
          b.2.chunks = (a.2.chunks.headD [] ++ List.replicate (maxD - a.2.shape.headD 0) 1) :: a.2.chunks.tail) := by
  unfold alignChunkInfo at h
  split at h
  · cases h
  · rename_i hne
    injection h with h
    subst h
    let ds := ci.map fun kv => kv.2.shape.headD 0
    refine ⟨ds.foldl max 0, ?_, ?_, by simp, ?_⟩
    · intro kv hkv
      exact (foldl_max_ge ds 0).2 _ (List.mem_map.mpr ⟨kv, hkv, rfl⟩)
    · rcases foldl_max_mem ds 0 with h0 | hm
      · -- all arrays have zero dumps
        cases ci with
        | nil => simp at hne
        | cons a t =>
          refine ⟨a, by simp, ?_⟩
          have := (foldl_max_ge ds 0).2 (a.2.shape.headD 0) (by simp [ds])
          omega
      · obtain ⟨kv, hkv, he⟩ := List.mem_map.mp hm
        exact ⟨kv, hkv, he⟩
    · intro i hi ho
      simp only [List.getElem_map]
      have hle := (foldl_max_ge ds 0).2 (ci[i].2.shape.headD 0)
        (List.mem_map.mpr ⟨ci[i], List.getElem_mem hi, rfl⟩)
      by_cases hlt : ci[i].2.shape.headD 0 < ds.foldl max 0
      · simp only [ds] at hlt
        simp only [hlt, if_true, true_and]
        refine ⟨?_, fun _ => ⟨rfl, rfl⟩⟩
        intro he
        simp only [ds] at he
        omega
      · simp only [ds] at hlt
        simp only [hlt, if_false, true_and]
        exact ⟨fun _ => trivial, fun hh => absurd hh hlt⟩

/-- the number of dumps covered by the dump-axis chunks stays consistent with the shape -/
theorem c18_span_chunks_sum (a : ArrInfo) (maxD : Nat) (hs : (a.chunks.headD []).sum = a.shape.headD 0)
    (hle : a.shape.headD 0 ≤ maxD) :
    (a.chunks.headD [] ++ List.replicate (maxD - a.shape.headD 0) 1).sum = maxD := by
  have hr : ∀ n : Nat, (List.replicate n 1).sum = n := by
    intro n
    induction n with
    | zero => rfl
    | succ n ih => simp [List.replicate_succ, ih]; omega
  rw [List.sum_append, hs, hr]
  omega

def ciL0 : ChunkInfo :=
  [(k "correlator_data", ⟨k "cb-l0", [4, 2, 3], [[2, 2], [2], [3]]⟩),
   (k "flags", ⟨k "cb-l0", [4, 2, 3], [[4], [2], [3]]⟩)]
def ciL1 : ChunkInfo := [(k "flags", ⟨k "cb-l1", [6, 2, 3], [[3, 3], [2], [3]]⟩)]
def ciBad : ChunkInfo := [(k "flags", ⟨k "cb-l1", [6, 1, 3], [[3, 3], [1], [3]]⟩)]

example : (upgradeChunkInfo ciL0 ciL1).bind alignChunkInfo = .ok
    [(k "correlator_data", ⟨k "cb-l0", [6, 2, 3], [[2, 2, 1, 1], [2], [3]]⟩),
     (k "flags", ⟨k "cb-l1", [6, 2, 3], [[3, 3], [2], [3]]⟩)] := by decide
example : upgradeChunkInfo ciL0 ciBad = .error .value := by decide

def st1 : Store :=
  [(k "sdp_archived_streams", .strs [k "l0", k "l1", k "l2"]),
   (k "l0_stream_type", .str (k "sdp.vis")), (k "cb_l0_chunk_info", .info ciL0),
   (k "l1_stream_type", .str (k "sdp.flags")), (k "l1_src_streams", .strs [k "l0"]), (k "cb_l1_chunk_info", .info ciL1),
   (k "l2_stream_type", .str (k "sdp.flags")), (k "l2_src_streams", .strs [k "other"]), (k "cb_l2_chunk_info", .info ciBad)]

example : sourceChunkInfo 5 st1 [k "cb_l0_", k "cb_", k "l0_", k ""] (k "cb") (k "l0") true = .ok
    [(k "correlator_data", ⟨k "cb-l0", [6, 2, 3], [[2, 2, 1, 1], [2], [3]]⟩),
     (k "flags", ⟨k "cb-l1", [6, 2, 3], [[3, 3], [2], [3]]⟩)] := by decide
example : sourceChunkInfo 5 st1 [k "cb_l0_", k "cb_", k "l0_", k ""] (k "cb") (k "l0") false = .ok ciL0 := by decide

end C18
