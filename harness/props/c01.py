"""C01 - selected data are the stored samples at the selected coordinates (all formats)."""
import json
import os
import random
import shutil
import tempfile

import dask
import numpy as np

from harness import common, ixgen

RULE = ('case = (format v1|v2|v3|v4, observation model: 1-9 dumps, 1-6 channels, 1-3 antennas, shuffled baseline order, '
        'random chunking (v4), duplicate final dump (v2/v3), lower sideband (v3), keepdims (v2/v3); a history of 1-4 '
        'select() calls over dumps / channels / corrprods / ants / pol / scans / timerange in several argument forms '
        'and reset modes; after every call: shape triple, label arrays, and vis / flags / weights read with a random '
        'second-stage index are compared with the stored samples at the coordinates named by dumps / channels / '
        'corr_products; indexers acquired before a call are read after it (snapshot).  non-trivial = a proper '
        'non-empty sub-selection was read; distinct = hash of the encoded case.')
TRUSTED = ['Lean 4.33 kernel', 'axioms: propext, Classical.choice, Quot.sound only',
           'hand-written models (DataSetGlue, LazyIndexer, DaskIndexer, Select) tied to /repo by this differential run',
           'synthetic files / stores written by harness/h5synth.py and harness/v4synth.py hold coordinate codes',
           'h5py, dask and numpy basic indexing']
CHECKER = 'lake build KatdalModel.Props.C01 kd_c01 && lake env lean <#print axioms audit>'
FULL = ('s', None, None, None)


class Truth:
    weather = None


V4_WEATHER = {'temperature': 'anc_air_temperature', 'pressure': 'anc_air_pressure',
              'humidity': 'anc_air_relative_humidity', 'wind_speed': 'anc_mean_wind_speed',
              'wind_direction': 'anc_wind_direction'}
V2_WEATHER = {'temperature': 'Enviro/asc.air.temperature', 'pressure': 'Enviro/asc.air.pressure',
              'humidity': 'Enviro/asc.air.relative-humidity', 'wind_speed': 'Enviro/asc.wind.speed',
              'wind_direction': 'Enviro/asc.wind.direction'}
V3_WEATHER = {'temperature': 'anc/air_temperature', 'pressure': 'anc/air_pressure',
              'humidity': 'anc/air_relative_humidity', 'wind_speed': 'anc/mean_wind_speed',
              'wind_direction': 'anc/wind_direction'}


def weather_ramps(rng):
    """linear sensor histories from one dump before the first to one dump after the last dump: (first, last) value"""
    return {k: (float(rng.randint(0, 50)), float(rng.randint(51, 100))) for k in V4_WEATHER}


def build(case, tmp):
    """returns (dataset, Truth) for the case's format"""
    rng = random.Random(case['seed'])
    fmt = case['fmt']
    tr = Truth()
    if fmt == 'v4':
        from harness import v4synth
        extra = {}
        if case.get('via_rdb'):
            os.makedirs(os.path.join(tmp, 'store'), exist_ok=True)
            extra = dict(store_dir=os.path.join(tmp, 'store'), rdb_path=os.path.join(tmp, 'syn_sdp_l0.full.rdb'))
        tr.weather = weather_ramps(rng)
        wx = {V4_WEATHER[k]: [(-1.0, a), (case['T'] + 1.0, b)] for k, (a, b) in tr.weather.items()}
        syn = v4synth.make_v4(rng, T=case['T'], F=case['F'], n_ants=case['n_ants'], shuffle_bls=True, **extra,
                              extra_sensors=wx,
                              activity=[(-1.0, 'slew'), (case['T'] // 3 + 0.5, 'track'), (2 * case['T'] // 3 + 0.5, 'scan')])
        d = syn.dataset
        tr.vis = syn.stored['correlator_data']
        tr.flags_raw = syn.stored['flags']
        tr.weights = (syn.stored['weights'] * syn.stored['weights_channel'][..., None]).astype(np.float32)
        tr.timestamps, tr.freqs, tr.corrprods = syn.timestamps, syn.freqs, [tuple(c) for c in syn.corrprods]
        tr.keepdims = False
        return d, tr
    from harness import h5synth
    path = os.path.join(tmp, f'{fmt}.h5')
    if fmt == 'v3':
        tr.weather = weather_ramps(rng)
        wx = {V3_WEATHER[k]: [(-1.0, a), (case['T'] + 1.0, b)] for k, (a, b) in tr.weather.items()}
        v3kw = {}
        if case.get('start_times'):
            # non-centroid timestamps, optionally with a CBF dump period shorter than the L0 dump period
            v3kw = dict(centroid=False, cbf_int_time=case.get('cbf_int_time'))
        syn = h5synth.make_v3(path, rng, T=case['T'], F=case['F'], n_ants=case['n_ants'], shuffle_bls=True,
                              dup_final_dump=case['dup'], sideband=case['sideband'], extra_sensors=wx, **v3kw,
                              open_kwargs={'keepdims': case['keepdims']})
        tr.keepdims = case['keepdims']
    elif fmt == 'v2':
        wx = None
        if not case.get('lost') and not case.get('cf2'):
            tr.weather = weather_ramps(rng)
            wx = {V2_WEATHER[k]: [(-1.0, a), (case['T'] + 1.0, b)] for k, (a, b) in tr.weather.items()}
        syn = h5synth.make_v2(path, rng, T=case['T'], F=case['F'], n_ants=case['n_ants'], shuffle_bls=True,
                              extra_sensors=wx,
                              dup_final_dump=case['dup'], open_kwargs={'keepdims': case['keepdims']},
                              lost=case.get('lost') or None, config_as_datasets=case['seed'] % 4 == 1,
                              **({'centre_freq': [(-2.0, case['cf2']['first']), (case['cf2']['at'] - 0.4,
                                                                                   case['cf2']['second'])]}
                                 if case.get('cf2') else {}))
        tr.keepdims = case['keepdims']
    else:
        n = max(1, case['T'] // 3)
        scans = [('slew', 'Alpha, radec, 19:39:25.03, -63:42:45.6', 1),
                 ('scan', 'Alpha, radec, 19:39:25.03, -63:42:45.6', n),
                 ('scan', 'Beta, radec, 04:08:20.38, -65:45:09.1', max(1, case['T'] - n - 1))]
        if case.get('v1_many'):
            # more than ten compound scans (group numbers with two digits), one or two dumps each
            scans = [('scan', ('Alpha, radec, 19:39:25.03, -63:42:45.6', 'Beta, radec, 04:08:20.38, -65:45:09.1')[k % 2],
                      1 + (k % 3 == 0)) for k in range(12)]
        syn = h5synth.make_v1(path, rng, scans=scans, F=case['F'], n_ants=min(case['n_ants'], 2))
        tr.keepdims = True
    tr.vis, tr.flags_raw, tr.weights = syn.vis, syn.flags_raw, syn.weights
    tr.timestamps, tr.freqs = np.asarray(syn.timestamps), np.asarray(syn.freqs)
    tr.corrprods = [tuple(c) for c in syn.corrprods]
    tr.syn = syn
    return syn.dataset, tr


def gen_select(rng, case, T, F, B):
    kw = {}
    n = rng.choice([1, 1, 2, 3])
    keys = rng.sample(['dumps', 'channels', 'corrprods', 'ants', 'pol', 'scans', 'timerange_frac'], n)
    for k in keys:
        if k == 'dumps':
            kw[k] = list(rng.choice([ixgen.gen_slice(rng, T, allow_neg_step=False), ixgen.gen_mask(rng, T),
                                     ixgen.gen_inc_list(rng, T)]))
        elif k == 'channels':
            kw[k] = list(rng.choice([ixgen.gen_slice(rng, F, allow_neg_step=False), ixgen.gen_mask(rng, F),
                                     ixgen.gen_inc_list(rng, F)]))
        elif k == 'corrprods':
            kw[k] = rng.choice(['auto', 'cross', list(ixgen.gen_mask(rng, B)), list(ixgen.gen_inc_list(rng, B))])
        elif k == 'ants':
            kw[k] = rng.choice(['FIRST', '~FIRST'])
        elif k == 'pol':
            kw[k] = rng.choice(['h', 'v', 'hv', 'HH,VV'])
        elif k == 'scans':
            kw[k] = rng.choice(['track', '~slew', 'scan', 0])
        else:
            a = rng.randint(0, T)
            kw[k] = [a, rng.randint(a, T)]
    if case['fmt'] == 'v4' and rng.random() < 0.35:
        from katdal.flags import NAMES
        kw['flags'] = rng.choice(['all', ','.join(rng.sample(list(NAMES), rng.randint(1, 4)))])
    reset = rng.choice([None, None, None, '', 'T', 'B', 'TFB'])
    return dict(kw=kw, reset=reset)


def gen_case(rng, fmt=None):
    fmt = fmt or rng.choice(['v4', 'v4', 'v3', 'v3', 'v2', 'v1'])
    T, F = rng.randint(2, 9), rng.randint(1, 6)
    case = dict(fmt=fmt, T=T, F=F, n_ants=rng.randint(1, 3), seed=rng.randrange(2 ** 31),
                dup=rng.random() < 0.4, sideband=rng.choice([1, 1, -1]), keepdims=rng.random() < 0.4,
                via_rdb=rng.random() < 0.35, start_times=rng.random() < 0.3,
                cbf_int_time=rng.choice([None, 0.5, 0.25]))
    if fmt == 'v2' and T >= 4 and rng.random() < 0.4:
        first = rng.choice([1822e6, 1900e6])
        case['cf2'] = dict(first=first, second=first + rng.choice([-100e6, 100e6]), at=rng.randint(1, T - 1))
        case['dup'] = False
    if fmt == 'v1' and rng.random() < 0.3:
        case['v1_many'] = True
    if fmt == 'v2' and T >= 5 and not case.get('cf2') and rng.random() < 0.35:
        # dumps that were never written: irregular timestamps (labels and sensors must follow the real times)
        case['lost'] = sorted(rng.sample(range(1, T - 1), rng.randint(1, min(2, T - 3))))
    n_ants = case['n_ants'] if fmt != 'v1' else min(case['n_ants'], 2)
    B = {1: 4, 2: 12, 3: 24}[n_ants] if fmt == 'v4' else None
    case['ops'] = []
    for _ in range(rng.randint(1, 4)):
        case['ops'].append(dict(select=gen_select(rng, case, T, F, B or 4), ix_seed=rng.randrange(2 ** 31),
                                snapshot=rng.random() < 0.4))
    return case


def directed_cases(rng):
    """in every run whatever the seed: v2 files with two spectral windows, the second centre frequency below and above
    the first; v2 / v3 files opened with keepdims=True and read with numpy integer scalars as second-stage indices"""
    out = []
    for second in (-100e6, 100e6):
        c = gen_case(rng, 'v2')
        c.pop('lost', None)
        c['T'] = max(c['T'], 4)
        c.update(cf2=dict(first=1900e6, second=1900e6 + second, at=rng.randint(1, c['T'] - 1)), dup=False)
        out.append(c)
    for fmt in ('v2', 'v2', 'v3'):
        for _ in range(40):
            c = gen_case(rng, fmt)
            if not c.get('cf2') and not c.get('lost'):
                break
        c.update(keepdims=True, np_ints=True)
        while len(c['ops']) < 4:
            c['ops'].append(dict(select=dict(kw={}, reset=None), ix_seed=rng.randrange(2 ** 31), snapshot=False))
        out.append(c)
    return out


def to_kwargs(sel, d, tr):
    kw = {}
    B = len(tr.corrprods)
    T = len(tr.timestamps)
    for k, v in sel['kw'].items():
        if k in ('dumps', 'channels'):
            n = T if k == 'dumps' else len(tr.freqs)
            kw[k] = fit_index(tuple(v) if v[0] == 's' else (v[0], v[1]), n)
        elif k == 'corrprods':
            kw[k] = v if isinstance(v, str) else fit_index((v[0], v[1]), B)
        elif k == 'ants':
            first = d.subarrays[0].ants[0].name
            kw[k] = v.replace('FIRST', first)
        elif k == 'timerange_frac':
            dp = d.dump_period
            kw['timerange'] = (tr.timestamps[0] - dp / 2 + v[0] * dp, tr.timestamps[0] - dp / 2 + v[1] * dp)
        else:
            kw[k] = v
    if sel['reset'] is not None:
        kw['reset'] = sel['reset']
    return kw


def fit_index(ix, n):
    """adapt a generated index to the real axis length (lengths differ between formats)"""
    if ix[0] == 'm':
        m = list(ix[1])[:n] + [True] * max(0, n - len(ix[1]))
        return np.array(m, dtype=bool)
    if ix[0] == 'l':
        return sorted({min(int(v), n - 1) for v in ix[1] if n > 0})
    return ixgen.to_py(ix)


def gen_ix(rng, shape, fmt):
    out = []
    for n in shape:
        r = rng.random()
        if r < 0.25:
            ix = FULL
        elif r < 0.45 and n > 0:
            ix = ixgen.gen_int(rng, n)
        elif r < 0.65:
            ix = ixgen.gen_slice(rng, n, allow_neg_step=False, wild=False)
        elif r < 0.8:
            ix = ixgen.gen_mask(rng, n)
        else:
            ix = ixgen.gen_inc_list(rng, n)
        out.append(ix)
    if rng.random() < 0.3:
        out = out[:rng.randint(0, len(out))]
    return out


def expected_block(tr, dumps, chans, cpidx):
    sel = np.ix_(dumps, chans, cpidx)
    return tr.vis[sel], (tr.flags_raw[sel] != 0), tr.weights[sel]


def apply_second_stage(block, sels, keepdims):
    out = ixgen.apply_sels(block, sels)
    if keepdims:
        for ax, (kind, _) in enumerate(sels):
            if kind == 'o':
                out = np.expand_dims(out, ax)
    return out


def read_all(indexers, k2):
    return [np.asarray(ind[k2]) for ind in indexers]


def run_case(ctx, case):
    """returns violation text or None; fills ctx tags"""
    tmp = tempfile.mkdtemp(prefix='c01_')
    try:
        with dask.config.set(scheduler='synchronous'):
            try:
                d, tr = build(case, tmp)
            except Exception as e:   # noqa: BLE001
                return f"opening a synthetic {case['fmt']} data set raised {type(e).__name__}: {str(e)[:120]}", False
            if case.get('cf2'):
                return multi_spw(ctx, case, d, tr), True
            v, nontrivial = drive(ctx, case, d, tr)
            if v is None and case['fmt'] != 'v4' and case['seed'] % 3 == 0:
                v = reopen_with_offset(ctx, case, tr)
            return v, nontrivial
    finally:
        shutil.rmtree(tmp, ignore_errors=True)


def reopen_with_offset(ctx, case, tr):
    """the documented conversion option of katdal.open: time_offset shifts every timestamp (and the start and end
    time with them) by that many seconds and leaves the data alone"""
    off = [2.5, -1.25, 64.0][case['seed'] // 3 % 3]
    kw = dict(tr.syn.open_kwargs)
    kw['time_offset'] = off
    try:
        d0 = tr.syn.open(**dict(tr.syn.open_kwargs, time_offset=0.0))
        d1 = tr.syn.open(**kw)
    except Exception as e:   # noqa: BLE001
        return f'katdal.open(..., time_offset={off}) raised {type(e).__name__}: {str(e)[:100]}'
    ctx.tag('reopen-time-offset')
    t0, t1 = np.asarray(d0.timestamps[:]), np.asarray(d1.timestamps[:])
    if t0.shape != t1.shape or not np.array_equal(t1, t0 + off):
        return (f'katdal.open(..., time_offset={off}): timestamps start at {t1[:2].tolist()}, without the offset at '
                f'{t0[:2].tolist()} (every timestamp must move by the offset)')
    if abs((d1.start_time.secs - d0.start_time.secs) - off) > 1e-6 or abs((d1.end_time.secs - d0.end_time.secs) - off) > 1e-6:
        return f'katdal.open(..., time_offset={off}): start / end time did not move by the offset'
    if not np.array_equal(np.asarray(d1.vis[:]), np.asarray(d0.vis[:])):
        return f'katdal.open(..., time_offset={off}) changed the visibilities'
    if getattr(tr, 'weather', None) and len(t0) >= 3:
        # per-dump sensors are the values AT the dumps the data set labels: with an offset of exactly one dump period
        # dump i carries the label dump i+1 has without the offset, hence the sensor values dump i+1 has there
        dp = float(d0.dump_period)
        try:
            d2 = tr.syn.open(**dict(tr.syn.open_kwargs, time_offset=dp))
            for prop in tr.weather:
                v0, v2 = np.asarray(getattr(d0, prop), dtype=float), np.asarray(getattr(d2, prop), dtype=float)
                if v0.shape != v2.shape or not np.allclose(v2[:-1], v0[1:], rtol=0, atol=1e-6):
                    return (f'katdal.open(..., time_offset=one dump period): d.{prop} reads {v2[:4].tolist()}, one dump '
                            f'later without the offset it reads {v0[1:5].tolist()}: the per-dump sensor values are not '
                            f'those of the dumps the timestamps name')
        except Exception as e:   # noqa: BLE001
            return f'katdal.open(..., time_offset=one dump period): reading the weather sensors raised {type(e).__name__}: {str(e)[:80]}'
        ctx.tag('reopen-time-offset-sensors')
    return None


def multi_spw(ctx, case, d, tr):
    """a v2 file whose centre frequency changes during the observation: spectral windows in order of first
    appearance; select(spw=k) (0 by default) exposes the dumps observed in window k with that window's freqs"""
    cf = case['cf2']
    T, F = len(tr.timestamps), len(tr.freqs)
    bw = tr.syn.bandwidth
    centres = [cf['first'], cf['second']]
    want_dumps = [list(range(0, cf['at'])), list(range(cf['at'], T))]
    if len(d.spectral_windows) != 2:
        return f'{len(d.spectral_windows)} spectral windows for an observation with two centre frequencies'
    for k in (None, 0, 1, 0):
        if k is not None:
            d.select(spw=k)
        kk = 0 if k is None else k
        label = 'after opening' if k is None else f'select(spw={k})'
        freqs = centres[kk] - bw * (np.arange(F) - F // 2) / F
        dumps = [int(x) for x in d.dumps]
        if dumps != want_dumps[kk]:
            return f'{label}: dumps {dumps}, the dumps observed at centre frequency {centres[kk]:g} are {want_dumps[kk]}'
        if not np.allclose(np.asarray(d.freqs), freqs, rtol=0, atol=1e-3):
            return (f'{label}: freqs centred on {float(np.asarray(d.freqs)[F // 2]):.6g} Hz but the exposed dumps were '
                    f'observed at centre frequency {centres[kk]:.6g} Hz')
        if not np.array_equal(np.asarray(d.timestamps[:]), tr.timestamps[dumps]):
            return f'{label}: timestamps are not those of the exposed dumps'
        cpidx = [tr.corrprods.index(tuple(c)) for c in d.corr_products]
        if not np.array_equal(np.asarray(d.vis[:]), tr.vis[np.ix_(dumps, range(F), cpidx)]):
            return f'{label}: vis is not the stored data of the exposed dumps'
        si = [int(x) for x in d.sensor['Observation/spw_index']]
        if si != [kk] * len(dumps):
            return f'{label}: Observation/spw_index reads {si}'
    ctx.tag('v2-two-spectral-windows-' + ('descending' if cf['second'] < cf['first'] else 'ascending'))
    return None


def mask_str(n, idxs):
    s = ['0'] * n
    for i in idxs:
        s[int(i)] = '1'
    return ''.join(s)


def flag_mask(names):
    from katdal.flags import NAMES
    if names == 'all':
        return 0xFF
    return sum(1 << NAMES.index(n) for n in names.split(',') if n in NAMES)


def drive(ctx, case, d, tr):
    nontrivial = False
    T, F, B = len(tr.timestamps), len(tr.freqs), len(tr.corrprods)
    fmask = 0xFF       # flags selection in force (v4 only; persists until the next flags= criterion)
    if case['seed'] % 4 == 2:
        # a refused call (the first spectral window index that does not exist -> IndexError): "the reported shape
        # ALWAYS equals (len(timestamps), len(freqs), len(corr_products))", also right after it
        n_spw = len(d.spectral_windows)
        try:
            d.select(spw=n_spw)
            return f'select(spw={n_spw}) on a data set with {n_spw} spectral window(s) was accepted', nontrivial
        except IndexError:
            pass
        try:
            lens = (len(np.asarray(d.timestamps[:])), len(d.freqs), len(d.corr_products))
            shp = tuple(int(x) for x in d.shape)
            advertised = [tuple(int(x) for x in a.shape) for a in (d.vis, d.flags, d.weights)]
        except Exception as e:   # noqa: BLE001
            return f'after the refused select(spw={n_spw}) the data set cannot be read: {type(e).__name__}: {str(e)[:80]}', nontrivial
        if shp != lens or (not tr.keepdims and any(a != shp for a in advertised)):
            return (f'after the refused select(spw={n_spw}): shape {shp}, (len(timestamps), len(freqs), '
                    f'len(corr_products)) = {lens}, array shapes {advertised}'), nontrivial
        ctx.tag('refused-spw')
    for op in case['ops']:
        # snapshot: acquire indexers under the current selection
        snap = None
        if op['snapshot']:
            cp_now = [tr.corrprods.index(tuple(c)) for c in d.corr_products]
            snap = dict(ind=(d.vis, d.flags, d.weights), dumps=list(d.dumps), chans=list(d.channels), cp=cp_now,
                        fmask=fmask)
        if 'flags' in op['select']['kw']:
            fmask = flag_mask(op['select']['kw']['flags'])
            ctx.tag('flags-selection' + ('-all' if fmask == 0xFF else ''))
        try:
            d.select(**to_kwargs(op['select'], d, tr))
        except Exception as e:   # noqa: BLE001  - invalid criterion (e.g. unknown state): not this property
            ctx.tag('select-raised-' + type(e).__name__)
            return None, nontrivial
        dumps, chans = [int(x) for x in d.dumps], [int(x) for x in d.channels]
        try:
            cpidx = [tr.corrprods.index(tuple(c)) for c in d.corr_products]
        except ValueError:
            return f'corr_products contains a pair that is not a stored product: {d.corr_products.tolist()}', nontrivial
        shape = (len(dumps), len(chans), len(cpidx))
        # --- shape and labels
        if tuple(int(x) for x in d.shape) != shape:
            return f'shape {tuple(d.shape)} != (len(dumps), len(channels), len(corr_products)) = {shape}', nontrivial
        try:
            ts = np.asarray(d.timestamps[:])
        except Exception as e:   # noqa: BLE001
            return f'reading timestamps raised {type(e).__name__}: {str(e)[:100]}', nontrivial
        if ts.shape != (shape[0],) or not np.array_equal(ts, tr.timestamps[dumps]):
            return f'timestamps {ts.tolist()[:4]} are not those of dumps {dumps[:4]}: {tr.timestamps[dumps].tolist()[:4]}', nontrivial
        if not np.array_equal(np.asarray(d.freqs), tr.freqs[chans]):
            return f'freqs are not those of channels {chans}', nontrivial
        for name, ind in (('vis', d.vis), ('flags', d.flags), ('weights', d.weights)):
            if tuple(int(x) for x in ind.shape) != shape:
                return f'{name}.shape {tuple(ind.shape)} != data set shape {shape}', nontrivial
        # the sensor cache must interpolate onto the same dump timestamps the data set reports
        st = np.asarray(d.sensor.timestamps[:])
        if st.shape == (T,) and not np.array_equal(st, tr.timestamps):
            return (f'the sensor cache works on timestamps {st.tolist()[:3]}… that are not the data timestamps '
                    f'{tr.timestamps.tolist()[:3]}…'), nontrivial
        half = 0.5 * d.dump_period
        if abs(d.start_time.secs - (tr.timestamps[0] - half)) > 1e-6 or abs(d.end_time.secs - (tr.timestamps[-1] + half)) > 1e-6:
            return 'start_time / end_time do not bracket the first and last dump by half a dump', nontrivial
        si = np.asarray(d.sensor['Observation/scan_index'])
        full = np.asarray(d.sensor.get('Observation/scan_index')[:])
        if si.shape != (shape[0],) or not np.array_equal(si, full[dumps]):
            return 'per-dump sensor array is not the full-length sensor restricted to dumps', nontrivial
        # the weather properties (temperature, pressure, ...) are per-dump sensor arrays of the selected dumps
        if tr.weather:
            for prop, (a, b) in tr.weather.items():
                try:
                    got = np.asarray(getattr(d, prop), dtype=float)
                except Exception as e:   # noqa: BLE001
                    return f'd.{prop} raised {type(e).__name__}: {str(e)[:80]}', nontrivial
                want = np.array([a + (b - a) * (i + 1.0) / (T + 1.0 + 1.0) for i in dumps])
                if got.shape != want.shape:
                    return (f'd.{prop} has {got.shape[0] if got.ndim else 0} values for {len(dumps)} selected dumps'), nontrivial
                if not np.allclose(got, want, rtol=0, atol=1e-6):
                    return (f'd.{prop} = {got.tolist()[:4]} is not the sensor history interpolated at the selected '
                            f'dumps {dumps[:4]}: {want.tolist()[:4]}'), nontrivial
            ctx.tag('weather')
        # --- second-stage reads
        rng = random.Random(op['ix_seed'])
        k2 = gen_ix(rng, shape, case['fmt'])
        line = f'read {mask_str(T, dumps)} {mask_str(F, chans)} {mask_str(B, cpidx)} {ixgen.enc_tuple(k2)}'
        rep = common.run_model('C01', [line])[0]
        if rep.startswith('E:'):
            ctx.tag('invalid-second-stage')
            continue
        sels_src = ixgen.parse_sels(rep)       # source coordinates per axis
        k2py = tuple(ixgen.to_py(ix, as_array=rng.random() < 0.5) for ix in k2)
        # integer indices also arrive as numpy integer scalars (np.argmax, iterating over d.dumps, ...)
        k2py = tuple(np.int64(v) if (isinstance(v, int) and not isinstance(v, bool)
                                     and (rng.random() < 0.4 or case.get('np_ints'))) else v
                     for v in k2py)
        if len(k2py) == 1 and rng.random() < 0.5:
            k2py = k2py[0]
        try:
            got = read_all((d.vis, d.flags, d.weights), k2py)
        except Exception as e:   # noqa: BLE001
            return (f'reading vis/flags/weights with second-stage index {ixgen.enc_tuple(k2)} on selection of shape '
                    f'{shape} raised {type(e).__name__}: {str(e)[:100]}'), nontrivial
        exp = [apply_second_stage(a, sels_src, tr.keepdims)
               for a in (tr.vis, (tr.flags_raw & np.uint8(fmask)) != 0, tr.weights)]
        for name, g, e in zip(('vis', 'flags', 'weights'), got, exp):
            if g.shape != e.shape:
                return f'{name}[{ixgen.enc_tuple(k2)}] has shape {g.shape}, outer indexing of the selection gives {e.shape}', nontrivial
            if not np.array_equal(g, e):
                w = np.argwhere(g != e)[0].tolist()
                return (f'{name}[{ixgen.enc_tuple(k2)}] element {w} = {g[tuple(w)]} is not the stored sample '
                        f'{e[tuple(w)]} at the coordinates named by dumps/channels/corr_products'), nontrivial
        if exp[0].size and exp[0].size < T * F * B:
            nontrivial = True
        for ix in k2:
            ctx.tag('ix2-' + ix[0])
        # --- snapshot
        if snap is not None:
            blk = [a[np.ix_(snap['dumps'], snap['chans'], snap['cp'])]
                   for a in (tr.vis, (tr.flags_raw & np.uint8(snap['fmask'])) != 0, tr.weights)]
            try:
                got = [np.asarray(i[:]) for i in snap['ind']]
            except Exception as e:   # noqa: BLE001
                return (f'indexer acquired before select() raised {type(e).__name__} when read afterwards '
                        f'({str(e)[:90]})'), nontrivial
            for name, g, e in zip(('vis', 'flags', 'weights'), got, blk):
                if g.shape != e.shape or not np.array_equal(g, e):
                    return (f'{name} indexer acquired before a select() call no longer describes the selection that was '
                            f'in force when it was obtained (got shape {g.shape}, expected {e.shape})'), nontrivial
            ctx.tag('snapshot')
    # --- strided time slices whose phase differs from internal boundaries (scan groups of v1 files, chunks)
    dumps, chans = [int(x) for x in d.dumps], [int(x) for x in d.channels]
    cpidx = [tr.corrprods.index(tuple(c)) for c in d.corr_products]
    srng = random.Random(case['seed'] + 17)
    n = len(dumps)
    for _ in range(4):
        if n < 2 or not chans or not cpidx:
            break
        step = srng.randint(2, 5)
        sl = slice(srng.randint(0, n - 1), srng.choice([None, srng.randint(1, n)]), step)
        want_d = dumps[sl]
        if not want_d:
            continue
        try:
            got_t, got_v = np.asarray(d.timestamps[sl]), np.asarray(d.vis[sl])
        except Exception as e:   # noqa: BLE001
            return f'strided time slice {sl} raised {type(e).__name__}: {str(e)[:80]}', nontrivial
        want_v = tr.vis[np.ix_(want_d, chans, cpidx)]
        if got_t.shape != (len(want_d),) or not np.array_equal(got_t, tr.timestamps[want_d]):
            return (f'timestamps[{sl.start}:{sl.stop}:{sl.step}] = dumps at {got_t.tolist()[:5]} instead of the '
                    f'selected dumps {want_d[:5]} ({tr.timestamps[want_d].tolist()[:5]})'), nontrivial
        if got_v.shape != want_v.shape or not np.array_equal(got_v, want_v):
            return f'vis[{sl.start}:{sl.stop}:{sl.step}] is not the stored data of dumps {want_d[:6]}', nontrivial
        ctx.tag('strided-time-slice')
    # --- per-dump sensors keep following the selection while scans() iterates and after it has finished
    try:
        full = np.asarray(d.sensor.get('Observation/scan_index')[:])
        seen = 0
        for _scan in d.scans():
            cur = [int(x) for x in d.dumps]
            si = np.asarray(d.sensor['Observation/scan_index'])
            if si.shape != (len(cur),) or not np.array_equal(si, full[cur]):
                return (f'inside scans() (scan {seen}): the per-dump sensor has {si.shape[0] if si.ndim else 0} values for '
                        f'{len(cur)} exposed dumps or other values than the full-length sensor at those dumps'), nontrivial
            seen += 1
        cur = [int(x) for x in d.dumps]
        si = np.asarray(d.sensor['Observation/scan_index'])
        # (whether the selection itself is restored is property C03's business; here: sensors follow d.dumps)
        if si.shape != (len(cur),) or not np.array_equal(si, full[cur]):
            return 'after scans() the per-dump sensor does not follow the dumps the data set reports', nontrivial
        if seen:
            ctx.tag('sensor-during-scans')
    except Exception as e:   # noqa: BLE001
        return f'scans() on the data set raised {type(e).__name__}: {str(e)[:80]}', nontrivial
    return None, nontrivial


def evaluate(ctx, cases):
    bad = []
    for c in cases:
        v, nontriv = run_case(ctx, c)
        ctx.tag('fmt-' + c['fmt'])
        if c['fmt'] == 'v4':
            ctx.tag('v4-via-katdal.open(rdb)' if c.get('via_rdb') else 'v4-direct-source')
        if c['fmt'] in ('v2', 'v3'):
            ctx.tag('keepdims' if c['keepdims'] else 'dropdims')
        if c['fmt'] in ('v2', 'v3'):
            ctx.tag(c['fmt'] + ('-dup-final-dump' if c['dup'] else '-no-dup'))
        if c['fmt'] == 'v3':
            ctx.tag(f"sideband{c['sideband']}")
        ctx.count(json.dumps(c, sort_keys=True), bool(nontriv),
                  sample={'fmt': c['fmt'], 'T': c['T'], 'F': c['F'], 'ops': [o['select'] for o in c['ops']][:2]})
        if v:
            bad.append((c, v))
    return bad


def still_fails(ctx, case):
    try:
        return bool(evaluate(common.Ctx(ctx.prop, ctx.tier, ctx.seed), [case]))
    except Exception:   # noqa: BLE001
        return False


def shrink(ctx, case, what):
    cur = json.loads(json.dumps(case))
    ops = common.ddmin(cur['ops'], lambda o: still_fails(ctx, dict(cur, ops=o)))
    cur['ops'] = ops
    for op in cur['ops']:
        for k in list(op['select']['kw']):
            cand = json.loads(json.dumps(cur))
            for o2 in cand['ops']:
                if o2['ix_seed'] == op['ix_seed']:
                    o2['select']['kw'].pop(k, None)
            if still_fails(ctx, cand):
                cur = cand
    bad = evaluate(common.Ctx(ctx.prop, ctx.tier, ctx.seed), [cur])
    return (cur, bad[0][1]) if bad else (case, what)


def m_v1_snapshot(case, what):
    """the recorded defect needs a later select() that narrows the product mask IN PLACE, i.e. one whose explicit
    `reset` leaves the baseline dimension out (a reset that includes it installs a fresh mask, which the earlier
    indexer does not see)"""
    return (case.get('fmt') == 'v1' and 'acquired before' in what
            and any(op['select'].get('reset') is not None and 'B' not in op['select']['reset']
                    for op in case.get('ops', []) if op.get('select')))


def m_v1_empty_products(case, what):
    return case.get('fmt') == 'v1' and 'need at least one array to concatenate' in what


def m_v1_empty_axis(case, what):
    return case.get('fmt') == 'v1' and 'cannot reshape array of size 0' in what


def m_h5_flags_all_scalar(case, what):
    import re
    return (case.get('fmt') in ('v2', 'v3') and what.startswith('flags[')
            and re.match(r'flags\[i:-?\d+;i:-?\d+;i:-?\d+\] has shape', what) is not None)


MATCHERS = {'c01_h5_flags_all_scalar_index': m_h5_flags_all_scalar,
            'c01_v1_snapshot_corrprod_by_reference': m_v1_snapshot,
            'c01_v1_empty_product_selection': m_v1_empty_products,
            'c01_v1_empty_axis_selection': m_v1_empty_axis}


def corpus():
    d = os.path.join(common.VERIF, 'corpus', 'C01')
    out = []
    if os.path.isdir(d):
        for nm in sorted(os.listdir(d)):
            out.append(json.load(open(os.path.join(d, nm)))['case'])
    return out


def run(ctx):
    ctx.matchers.update(MATCHERS)
    build_info = common.build_and_audit('C01', ctx.tier)
    cases = corpus() + directed_cases(ctx.rng) + [gen_case(ctx.rng) for _ in range(ctx.q(90, 2500))]
    bad = evaluate(ctx, cases)
    for c, v in bad:
        ctx.violation(c, v)
    return common.finish(ctx, build_info, RULE, CHECKER, TRUSTED, shrink=lambda c, w: shrink(ctx, c, w))


def replay(ctx, rep):
    ctx.matchers.update(MATCHERS)
    build_info = common.build_and_audit('C01', 'quick')
    for cc, v in evaluate(ctx, [rep['case']]):
        ctx.violation(cc, v)
    return common.finish(ctx, build_info, RULE, CHECKER, TRUSTED)
