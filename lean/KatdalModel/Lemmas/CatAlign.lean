/-
  C11 lemmas, part 7: which value every aligned segment carries.

  `align(segments)` moves every boundary onto its nearest segment start and, where several boundaries
  land on the same start, keeps the last of them.  `keptRise moved l` (CatWF) picks from `l` the
  entries at the positions `j` with `moved[j] < moved[j+1]`; here it is shown to be exactly that filter,
  and the aligned series is shown to consist of the pairs (nearest start, value) of those events.
-/
import KatdalModel.Lemmas.CatWF
open Np

namespace Categorical

set_option linter.unusedVariables false

variable {V : Type} [DecidableEq V]

/-- `keptRise` is the filter "keep entry j iff moved[j] < moved[j+1]" -/
theorem keptRise_eq_filter {α : Type} : ∀ (moved : List Nat) (l : List α),
    keptRise moved l =
      ((l.zip (moved.zip moved.tail)).filter (fun p => decide (p.2.1 < p.2.2))).map (·.1) := by
  intro moved
  induction moved with
  | nil => intro l; cases l <;> simp [keptRise]
  | cons a t ih =>
    intro l
    cases t with
    | nil => cases l <;> simp [keptRise]
    | cons b u =>
      cases l with
      | nil => simp [keptRise]
      | cons v vs =>
        have := ih vs
        simp only [List.tail_cons] at this
        by_cases hab : a < b
        · simp [keptRise, hab, this]
        · simp [keptRise, hab, this]

theorem keptRise_map {α β : Type} (f : α → β) : ∀ (moved : List Nat) (l : List α),
    keptRise moved (l.map f) = (keptRise moved l).map f := by
  intro moved
  induction moved with
  | nil => intro l; cases l <;> simp [keptRise]
  | cons a t ih =>
    intro l
    cases t with
    | nil => cases l <;> simp [keptRise]
    | cons b u =>
      cases l with
      | nil => simp [keptRise]
      | cons v vs =>
        have := ih vs
        simp only [keptRise, List.map_cons]
        split <;> simp_all

theorem takeIdx_ok_lt {α : Type} (u : List α) : ∀ (idxs : List Nat) (r : List α), takeIdx u idxs = .ok r →
    ∀ j ∈ idxs, j < u.length := by
  intro idxs
  induction idxs with
  | nil => intro r _ j hj; simp at hj
  | cons a t ih =>
    intro r h j hj
    simp only [takeIdx, bind, Except.bind] at h
    cases hg : getNat u a with
    | error e => simp [hg] at h
    | ok v =>
      cases ht : takeIdx u t with
      | error e => simp [hg, ht] at h
      | ok vs =>
        rcases List.mem_cons.mp hj with rfl | hj
        · simp only [getNat] at hg
          split at hg
          · rename_i w hw
            exact (List.getElem?_eq_some_iff.mp hw).1
          · simp at hg
        · exact ih vs ht j hj

/-- re-indexing through `np.unique(..., return_inverse=True)` keeps every value: entry `i` of the old unique
    values is entry `subset.idxOf i` of the new ones -/
theorem takeIdx_idxOf (u : List V) (subset : List Nat) (u' : List V) (hu : takeIdx u subset = .ok u')
    (i : Nat) (hi : i ∈ subset) : u'[subset.idxOf i]? = u[i]? := by
  have hlt : ∀ j ∈ subset, j < u.length := takeIdx_ok_lt u subset u' hu
  cases hu0 : u with
  | nil =>
    have := hlt i hi
    simp [hu0] at this
  | cons d _ =>
    rw [← hu0]
    have h1 := takeIdx_getD u d subset hlt
    rw [hu] at h1
    simp only [Except.ok.injEq] at h1
    subst h1
    have hget : subset[subset.idxOf i]? = some i := getElem?_idxOf_of_mem subset i hi
    rw [List.getElem?_map, hget]
    simp [List.getD, List.getElem?_eq_getElem (hlt i hi)]

/-- **what `align` produces**: with `moved` the nearest segment starts of the boundaries, the new boundaries are
    the entries of `moved` that are smaller than their successor, followed by the last entry, and the value
    carried from each of them is the value of the boundary at that position - i.e. of the last boundary that
    landed on that start -/
theorem align_values (c : Cat V) (h : c.WF) (segs : List Nat) (c' : Cat V) (hal : c.align segs = .ok c') :
    c'.values = keptRise (c.ev.map (nearest segs)) c.values ∧
    c'.ev = keptRise (c.ev.map (nearest segs)) (c.ev.map (nearest segs)) ++
              [(c.ev.map (nearest segs)).getLastD 0] := by
  simp only [Cat.align] at hal
  split at hal
  · simp at hal
  · split at hal
    · simp at hal
    · rename_i sel hsel
      split at hal
      · simp at hal
      · rename_i hany
        split at hal
        · simp at hal
        · rename_i uniq' hu
          split at hal
          · simp at hal
          · rename_i evs hevs
            split at hal
            · simp at hal
            · rename_i last hlast
              simp only [Except.ok.injEq] at hal
              subst hal
              have hlenm : (c.ev.map (nearest segs)).length ≤ c.idx.length + 1 := by
                simp [h.2.1]
              have hsel' := takeIdx_rises (c.ev.map (nearest segs)) [] c.idx hlenm
              simp only [List.nil_append, List.length_nil] at hsel'
              rw [hsel'] at hsel
              simp only [Except.ok.injEq] at hsel
              have hevs' := takeIdx_rises (c.ev.map (nearest segs)) [] (c.ev.map (nearest segs)) (by omega)
              simp only [List.nil_append, List.length_nil] at hevs'
              rw [hevs'] at hevs
              simp only [Except.ok.injEq] at hevs
              have hlastD : (c.ev.map (nearest segs)).getLastD 0 = last := by
                rw [List.getLastD_eq_getLast?, hlast]; rfl
              have hanyF : ∀ i ∈ sel, i < c.uniq.length := by
                intro i hi
                have : ¬ (sel.any fun i => decide (c.uniq.length ≤ i)) = true := hany
                simp only [List.any_eq_true, decide_eq_true_eq, not_exists, not_and, Nat.not_le] at this
                exact this i hi
              refine ⟨?_, by rw [hlastD, hevs]⟩
              simp only [Cat.values]
              rw [keptRise_map, hsel, List.map_map]
              apply List.map_congr_left
              intro i hi
              simp only [Function.comp]
              apply takeIdx_idxOf c.uniq _ uniq' hu i
              simp only [List.mem_filter, List.mem_range, List.contains_iff_mem]
              exact ⟨hanyF i hi, hi⟩

end Categorical
