"""Synthetic HDF5 files of format versions 1, 2 and 3 for the correspondence harnesses.

    syn = make_v3(path, rng, T=8, F=6, n_ants=2, ...)     # -> H5Synth, katdal.h5datav3.H5DataV3
    syn = make_v2(path, rng, T=8, F=6, n_ants=2, ...)     # -> H5Synth, katdal.h5datav2.H5DataV2
    syn = make_v1(path, rng, scans=[...], F=6, n_ants=2)  # -> H5Synth, katdal.h5datav1.H5DataV1

Every builder writes a minimal file at `path` with h5py, closes it and (unless ``open=False``)
opens it with the real ``katdal.open(path, **open_kwargs)``.  The result object has

    syn.path, syn.version        file name / 1, 2 or 3
    syn.dataset                  what katdal.open returned (None with open=False)
    syn.stored                   dict of numpy arrays exactly as written to the file:
                                   v3: vis_pairs f4 (Ts,F,B,2), flags u1, weights f4, weights_channel f4 (Ts,F),
                                       timestamps_raw f8 (Ts,)      [absent datasets are absent from the dict]
                                   v2: vis_pairs f4 (Ts,F,B,2), flags u1, (weights f4), timestamps_raw f8 (Ts,)
                                   v1: vis c8 (T,F,B) (all scans stacked in time order), timestamps_raw f8 (T,) in ms
    syn.n_stored_dumps           Ts = T + 1 with dup_final_dump (last stored timestamp duplicates the previous
                                 one, katdal must ignore the final dump), else T
    EXPECTED values, i.e. stored values after the conversion each reader documents, restricted to the T real dumps:
    syn.vis          complex64 (T,F,B)   v3: re + 1j*im, CONJUGATED when the spectral window has sideband -1
                                         v2, v1: always conjugated (lower-sideband correlators)
    syn.timestamps   float64 (T,)        mid-dump UTC seconds (+ time_offset if given in open_kwargs)
                                         v3: stored as centroids, unchanged; v2: stored start + dump_period/2;
                                         v1: stored ms / 1000 + dump_period/2
    syn.freqs        float64 (F,)        centre + sideband * bandwidth * (arange(F) - F//2) / F   (descending for -1)
    syn.flags_raw    uint8 (T,F,B)       stored flag bytes (v1: zeros); `flags[:]` with all flags selected is != 0;
                                         syn.flag_mask(names) gives the byte mask for a subset of flag names
                                         (v3: name i <-> bit i, LSB first; v2: name i <-> bit 7-i, MSB first)
    syn.weights      float32 (T,F,B)     v3: weights * weights_channel[..., None]; absent / v1 / v2 default -> 1.0
    syn.corrprods    list of (inp1, inp2) in stored order;  syn.ants  antenna names
    syn.dump_period, syn.sideband, syn.centre_freq, syn.bandwidth, syn.shape = (T, F, B)
    syn.activity / syn.targets / syn.labels   the sensor events written, as (absolute_timestamp, value)
    syn.obs_params   the observation parameters a reader should report (v2: Observation attributes with the
                     'script_' prefix stripped as documented for v2.1)

Array contents are coordinate codes so that "the stored sample at (t, f, b)" is visible in the values:
    code = (t*F + f)*B + b ;  vis real part = code, imaginary part = 0.5*code (exact in float32 for code < 2**23)
    flags = seeded pseudo-random bytes, weights in {0.25,0.5,1,1.5,2,3}, weights_channel in {0.5,1,2,4}
    (all products exact in float32).

`activity` / `targets` / `labels` are lists of (dump_offset, value): the event time is
first_dump_mid_time + dump_offset * dump_period (as in v4synth).  The same activity / target events are written
for every antenna.  `extra_sensors` = {path: [(dump_offset, value), ...]} adds (timestamp, value, status) sensor
datasets (float, bool or string values); a path component '*' is expanded to every antenna name.

v3 sideband: H5DataV3 has no file field for the sideband.  It is -1 only for the "fake UHF" case
(TelescopeState sub_band == 'u' AND bandwidth == 856e6, h5datav3.py:513), where the reader sets the centre
frequency to 428 MHz and conjugates the visibilities (h5datav3.py:1026).  make_v3(sideband=-1) therefore forces
band='u', bandwidth=856e6; sideband=+1 with band='u' needs another bandwidth (default 544e6, centre 816 MHz).

v3 timestamps are resynthesised by the reader as ((ts - sync) * scale) / scale + sync (h5datav3.py:281-282).
The default scale_factor_timestamp is 2.0**30 so that this round trip is exact for every int_time
(with the real 1712e6 it is exact only for dyadic offsets).
"""
import h5py
import katsdptelstate
import numpy as np

ANT_DESCR = '{name}, -30:42:39.8, 21:26:38.0, 1086.6, 13.5, {e} {n} 8.5, , 1.22'
TARGETS = ['J1939-6342, radec bpcal, 19:39:25.03, -63:42:45.6',
           'J0408-6545, radec gaincal, 04:08:20.38, -65:45:09.1',
           'Zenith, azel, 0, 90',
           'Src3, radec target, 05:00:00.0, -40:00:00.0']
FLAG_NAMES = ('reserved0', 'static', 'cam', 'data_lost', 'ingest_rfi', 'predicted_rfi', 'cal_rfi', 'postproc')
WEIGHT_CHOICES = [0.25, 0.5, 1.0, 1.5, 2.0, 3.0]
WEIGHT_CHANNEL_CHOICES = [0.5, 1.0, 2.0, 4.0]
# class attribute of well-known TelescopeModel components in v3 files (sensor group names in katdal)
V3_COMPONENT_CLASS = {'cbf': 'CorrelatorBeamformer', 'sdp': 'ScienceDataProcessor', 'obs': 'Observation',
                      'anc': 'Enviro', 'sub': 'Subarray', 'data': 'DataHandler'}


class H5Synth:
    """Result of make_v1 / make_v2 / make_v3 (see module docstring)."""

    dataset = None

    def flag_mask(self, names='all'):
        """uint8 mask of the stored flag bits that correspond to the flag `names` in this format."""
        if names == 'all':
            names = FLAG_NAMES
        elif isinstance(names, str):
            names = [n for n in names.split(',') if n]
        mask = 0
        for n in names:
            i = FLAG_NAMES.index(n)
            mask |= (1 << i) if self.version == 3 else (0x80 >> i) if self.version == 2 else 0
        return np.uint8(mask)

    def expected_flags(self, names='all'):
        """bool (T,F,B): what `dataset.flags[:]` has to return after select(flags=names)."""
        return (self.flags_raw & self.flag_mask(names)) != 0

    def open(self, **kwargs):
        """Open the file again with katdal.open (default: the open_kwargs given to the builder)."""
        import katdal
        return katdal.open(self.path, **(kwargs or self.open_kwargs))

    def close(self):
        f = getattr(self.dataset, 'file', None)
        if f is not None:
            try:
                f.close()
            except Exception:
                pass
        self.dataset = None


# ----------------------------------------------------------------------------------------------------------
# helpers
# ----------------------------------------------------------------------------------------------------------

def coord_codes(shape):
    return np.arange(int(np.prod(shape)), dtype=np.int64).reshape(shape)


def default_corrprods(ants, rng=None, shuffle=False, pols='hv'):
    cps = []
    for i in range(len(ants)):
        for j in range(i, len(ants)):
            for x in pols:
                for y in pols:
                    cps.append((f'{ants[i]}{x}', f'{ants[j]}{y}'))
    if shuffle and rng is not None:
        rng.shuffle(cps)
    return cps


def _nprng(rng, seed=None):
    return np.random.RandomState(rng.randrange(2 ** 31) if seed is None else seed)


def _vis_pairs(shape):
    code = coord_codes(shape)
    assert code.size < 2 ** 23, 'coordinate codes would not be exact in float32'
    pairs = np.empty(shape + (2,), dtype=np.float32)
    pairs[..., 0] = code
    pairs[..., 1] = 0.5 * code
    return pairs


def _pairs_to_complex(pairs):
    return (pairs[..., 0] + 1j * pairs[..., 1]).astype(np.complex64)


def _value_dtype(values):
    if all(isinstance(v, (bool, np.bool_)) for v in values):
        return np.dtype('?')
    if all(isinstance(v, (int, float, np.integer, np.floating)) and not isinstance(v, bool) for v in values):
        return np.dtype('f8')
    n = max([len(str(v).encode()) for v in values] + [1])
    # round up so that value fields have the usual generous fixed width
    return np.dtype(f'S{max(64, 64 * ((n + 63) // 64))}')


def _sensor_dataset(group, name, events, status='nominal'):
    """Write a KATCP-style sensor dataset (timestamp, value, status) with events = [(abs_time, value)]."""
    events = sorted(events, key=lambda e: e[0])
    values = [v for _, v in events]
    vdt = _value_dtype(values)
    rec = np.zeros(len(events), dtype=[('timestamp', 'f8'), ('value', vdt), ('status', 'S7')])
    rec['timestamp'] = [t for t, _ in events]
    rec['value'] = [str(v).encode() for v in values] if vdt.kind == 'S' else values
    rec['status'] = status.encode()
    return group.create_dataset(name, data=rec)


def _telstate_sensor_dataset(group, name, events):
    """TelescopeState sensor as written by ingest since 2016-05: (timestamp, value) with encoded values."""
    events = sorted(events, key=lambda e: e[0])
    dt = np.dtype([('timestamp', 'f8'), ('value', h5py.vlen_dtype(np.uint8))])
    ds = group.create_dataset(name, shape=(len(events),), dtype=dt)
    for i, (t, v) in enumerate(events):
        ds[i] = (t, np.frombuffer(katsdptelstate.encode_value(v), dtype=np.uint8))
    return ds


def _abs_events(events, t_first, dump_period):
    return [(t_first + float(dt) * dump_period, v) for dt, v in events]


def _expand_extra(extra_sensors, ants):
    """Expand a '*' path component of extra_sensors keys to every antenna name."""
    out = {}
    for name, events in (extra_sensors or {}).items():
        if '*' in name.split('/'):
            for a in ants:
                out['/'.join(a if part == '*' else part for part in name.split('/'))] = events
        else:
            out[name] = events
    return out


def _finish(syn, open_kwargs, do_open):
    syn.open_kwargs = dict(open_kwargs or {})
    off = syn.open_kwargs.get('time_offset', 0.0)
    if off:
        syn.timestamps = syn.timestamps + off
    if do_open:
        import katdal
        syn.dataset = katdal.open(syn.path, **syn.open_kwargs)
    return syn


# ----------------------------------------------------------------------------------------------------------
# version 3 (RTS / MeerKAT AR1)
# ----------------------------------------------------------------------------------------------------------

def make_v3(path, rng, T=8, F=6, n_ants=2, shuffle_bls=True, dup_final_dump=False, sideband=1, band='l',
            with_flags=True, with_weights=True, activity=None, targets=None, labels=None, extra_sensors=None,
            int_time=2.0, t0=1500000000.0, open_kwargs=None, bandwidth=None, cbid='1500000000',
            obs_params=None, scale_factor_timestamp=2.0 ** 30, sync_offset=1000.0, centroid=True,
            version='3.9', pols='hv', seed=None, open=True, cbf_int_time=None, with_weights_channel=None):
    """Write a v3 file and open it.  `t0` is the MID time of the first dump.

    extra_sensors : {'<component>/<sensor>': events} below TelescopeModel (component group is created with the
        class of V3_COMPONENT_CLASS, antennas are AntennaPositioner -> katdal name 'Antennas/<ant>/<sensor>',
        'anc/x' -> 'Enviro/x', 'obs/x' -> 'Observation/x') or {'TelescopeState/<key>': events}
        (telstate-encoded (timestamp, value) sensor -> katdal name 'TelescopeState/<key>').
    cbid=None leaves out the capture_block_id attribute (pre-3.9 layout): obs_params are then replayed from an
        'obs/params' sensor ("key repr(value)" strings, give it via extra_sensors), which needs
        np.lib.utils.safe_eval (h5datav3.py:371) -- removed in numpy 2, so such a file only opens without that sensor.
    centroid=False writes dump START times without the timestamp_reference attribute (old RTS style);
        the reader then adds half a CBF dump.
    cbf_int_time (with centroid=False): the CBF dump period differs from the L0 dump period `int_time` (early AR1
        style: several CBF dumps per L0 dump, TelescopeModel/sdp.l0_int_time): the stored time is half a CBF dump
        before the centroid.
    """
    if sideband not in (1, -1):
        raise ValueError('sideband must be +1 or -1')
    if sideband == -1:
        band, bandwidth = 'u', 856e6
    elif bandwidth is None:
        bandwidth = 544e6 if band == 'u' else 856e6
    if sideband == 1 and band == 'u' and bandwidth == 856e6:
        raise ValueError("band 'u' with bandwidth 856e6 is read as sideband -1 (fake UHF)")
    syn = H5Synth()
    syn.path, syn.version = str(path), 3
    ants = [f'm{i:03}' for i in range(n_ants)]
    corrprods = default_corrprods(ants, rng, shuffle_bls, pols)
    B = len(corrprods)
    Ts = T + 1 if dup_final_dump else T
    nprng = _nprng(rng, seed)
    pairs = _vis_pairs((Ts, F, B))
    flags = nprng.randint(0, 256, (Ts, F, B)).astype(np.uint8)
    weights = nprng.choice(WEIGHT_CHOICES, size=(Ts, F, B)).astype(np.float32)
    weights_channel = nprng.choice(WEIGHT_CHANNEL_CHOICES, size=(Ts, F)).astype(np.float32)
    mid = t0 + int_time * np.arange(T)
    ts_raw = mid if centroid else mid - 0.5 * (cbf_int_time if cbf_int_time is not None else int_time)
    if dup_final_dump:
        ts_raw = np.r_[ts_raw, ts_raw[-1]]
    stored = {'vis_pairs': pairs, 'timestamps_raw': ts_raw}
    if with_flags:
        stored['flags'] = flags
    if with_weights_channel is None:
        with_weights_channel = with_weights
    if with_weights:
        stored['weights'] = weights
    if with_weights_channel:
        stored['weights_channel'] = weights_channel
    activity = activity or [(-1.0, 'slew'), (1.5, 'track')]
    targets = targets or [(-1.0, TARGETS[0])]
    labels = labels or [(-1.0, 'track')]
    syn.activity, syn.targets, syn.labels = (_abs_events(e, t0, int_time) for e in (activity, targets, labels))
    op = {'observer': 'verif', 'description': 'synthetic v3', 'experiment_id': 'x3'}
    op.update(obs_params or {})

    with h5py.File(path, 'w') as f:
        f.attrs['version'] = version
        if cbid is not None:
            f.attrs['capture_block_id'] = cbid
        data = f.create_group('Data')
        data.create_dataset('correlator_data', data=pairs)
        tds = data.create_dataset('timestamps', data=ts_raw)
        if centroid:
            tds.attrs['timestamp_reference'] = 'centroid'
        if with_flags:
            data.create_dataset('flags', data=flags)
        if with_weights:
            data.create_dataset('weights', data=weights)
        if with_weights_channel:
            data.create_dataset('weights_channel', data=weights_channel)
        tm = f.create_group('TelescopeModel')
        cbf = tm.create_group('cbf')
        cbf.attrs['class'] = 'CorrelatorBeamformer'
        cbf.attrs['int_time'] = float(int_time if cbf_int_time is None else cbf_int_time)
        if cbf_int_time is not None:
            sdp = tm.create_group('sdp')
            sdp.attrs['class'] = 'ScienceDataProcessor'
            sdp.attrs['l0_int_time'] = float(int_time)
        cbf.attrs['scale_factor_timestamp'] = float(scale_factor_timestamp)
        cbf.attrs['sync_time'] = float(t0 - sync_offset)
        cbf.attrs['n_chans'] = int(F)
        cbf.attrs['bandwidth'] = float(bandwidth)
        cbf.attrs['bls_ordering'] = np.array(corrprods, dtype='S')
        for i, a in enumerate(ants):
            g = tm.create_group(a)
            g.attrs['class'] = 'AntennaPositioner'
            g.attrs['observer'] = ANT_DESCR.format(name=a, e=-8.264 + 30 * i, n=-207.29 + 20 * i)
            _sensor_dataset(g, 'activity', syn.activity)
            _sensor_dataset(g, 'target', syn.targets)
        obs = tm.create_group('obs')
        obs.attrs['class'] = 'Observation'
        _sensor_dataset(obs, 'label', syn.labels)
        tstate = f.create_group('TelescopeState')
        if cbid is not None:
            tstate.attrs[f'{cbid}_obs_params'] = np.void(katsdptelstate.encode_value(op))
        tstate.attrs['sub_band'] = np.void(katsdptelstate.encode_value(band))
        for name, events in _expand_extra(extra_sensors, ants).items():
            ev = _abs_events(events, t0, int_time)
            comp, sensor = name.split('/', 1)
            if comp == 'TelescopeState':
                _telstate_sensor_dataset(tstate, sensor, ev)
                continue
            if comp not in tm:
                g = tm.create_group(comp)
                if comp in V3_COMPONENT_CLASS:
                    g.attrs['class'] = V3_COMPONENT_CLASS[comp]
            _sensor_dataset(tm[comp], sensor, ev)

    ok = dict(open_kwargs or {})
    rd_band = ok.get('band') or band
    centre = {'l': 1284e6, 'u': 816e6}.get(rd_band)
    rd_sideband = 1
    if rd_band == 'u' and bandwidth == 856e6:
        centre, rd_sideband = 428e6, -1
    if ok.get('centre_freq'):
        centre = ok['centre_freq']
    if centre is None:
        centre = 0.0        # the reader logs a warning and uses 0 Hz
    syn.stored = stored
    syn.n_stored_dumps = Ts
    syn.shape = (T, F, B)
    syn.corrprods, syn.ants = corrprods, ants
    syn.dump_period = float(int_time)
    syn.sideband, syn.centre_freq, syn.bandwidth, syn.band = rd_sideband, centre, float(bandwidth), rd_band
    vis = _pairs_to_complex(pairs[:T])
    syn.vis = vis.conjugate() if rd_sideband == -1 else vis
    syn.timestamps = mid.copy()
    syn.freqs = centre + rd_sideband * float(bandwidth) * (np.arange(F) - F // 2) / F
    syn.flags_raw = flags[:T].copy() if with_flags else np.zeros((T, F, B), np.uint8)
    syn.weights = ((weights[:T] if with_weights else np.ones((T, F, B), np.float32)) *
                   (weights_channel[:T, :, np.newaxis] if with_weights_channel else np.float32(1.0))).astype(np.float32)
    syn.obs_params, syn.cbid = (op if cbid is not None else {}), cbid
    return _finish(syn, open_kwargs, open)


# ----------------------------------------------------------------------------------------------------------
# version 2 (KAT-7)
# ----------------------------------------------------------------------------------------------------------

def make_v2(path, rng, T=8, F=6, n_ants=2, shuffle_bls=True, dup_final_dump=False, activity=None, targets=None,
            labels=None, int_time=1.0, t0=1300000000.0, open_kwargs=None, with_flags=True, with_weights=False,
            extra_sensors=None, centre_freq=1822e6, bandwidth=400e6, mode='wbc', version='2.1',
            pols='hv', seed=None, open=True, lost=None, config_as_datasets=False):
    """Write a v2 (KAT-7) file and open it.  `t0` is the MID time of the first dump; the file stores dump
    START times (t0 - int_time/2 + k*int_time) and the reader adds half a dump period.

    extra_sensors : {'<path below MetaData/Sensors>': events}, e.g. 'Antennas/ant1/pos.actual-scan-azim',
        'Enviro/asc.air.temperature'.
    lost : dump numbers (of the regular grid of T dumps) that were never written: the file holds T - len(lost) dumps with
        irregular timestamps (sensor events stay where they are in absolute time).
    centre_freq may also be a list of (dump_offset, Hz) events (several spectral windows, katdal then keeps only
        the dumps of spw 0 by default); the expected values of the result describe the FIRST event's window and
        all T dumps, so they are only directly comparable for a single centre frequency.
    """
    syn = H5Synth()
    syn.path, syn.version = str(path), 2
    ants = [f'ant{i + 1}' for i in range(n_ants)]
    corrprods = default_corrprods(ants, rng, shuffle_bls, pols)
    B = len(corrprods)
    Ts = T + 1 if dup_final_dump else T
    nprng = _nprng(rng, seed)
    pairs = _vis_pairs((Ts, F, B))
    flags = nprng.randint(0, 256, (Ts, F, B)).astype(np.uint8)
    weights = nprng.choice(WEIGHT_CHOICES, size=(Ts, F, B)).astype(np.float32)
    mid = t0 + int_time * np.arange(T)
    ts_raw = mid - 0.5 * int_time
    if dup_final_dump:
        ts_raw = np.r_[ts_raw, ts_raw[-1]]
    if lost:
        keep = [i for i in range(Ts) if i not in set(lost)]
        pairs, flags, weights, ts_raw = pairs[keep], flags[keep], weights[keep], ts_raw[keep]
        T, Ts = T - len(set(lost)), len(keep)
    stored = {'vis_pairs': pairs, 'timestamps_raw': ts_raw}
    if with_flags:
        stored['flags'] = flags
    if with_weights:
        stored['weights'] = weights
    activity = activity or [(-1.0, 'slew'), (1.5, 'track')]
    targets = targets or [(-1.0, TARGETS[0])]
    labels = labels or [(-1.0, 'track')]
    syn.activity, syn.targets, syn.labels = (_abs_events(e, t0, int_time) for e in (activity, targets, labels))
    cf_events = centre_freq if isinstance(centre_freq, (list, tuple)) else [(-2.0, float(centre_freq))]
    script_attrs = {'script_ants': ','.join(ants), 'script_observer': 'verif', 'script_description': 'synthetic v2',
                    'script_experiment_id': 'x2', 'script_name': 'synth.py', 'script_arguments': '--dry'}
    cf_events = _abs_events(cf_events, t0, int_time)

    with h5py.File(path, 'w') as f:
        f.attrs['version'] = version
        f.attrs['augment_ts'] = 'synthetic'
        data = f.create_group('Data')
        data.create_dataset('correlator_data', data=pairs)
        data.create_dataset('timestamps', data=ts_raw)
        markup = f.create_group('Markup')
        if with_flags:
            markup.create_dataset('flags', data=flags)
        if with_weights:
            markup.create_dataset('weights', data=weights)
        lab = np.zeros(len(syn.labels), dtype=[('timestamp', 'f8'), ('label', 'S64')])
        lab['timestamp'] = [t for t, _ in syn.labels]
        lab['label'] = [v.encode() for _, v in syn.labels]
        markup.create_dataset('labels', data=lab)
        log = np.zeros(1, dtype=[('timestamp', 'f8'), ('log', 'S128')])
        log[0] = (t0 - 2 * int_time, b'INFO synthetic observation started')
        f.create_group('History').create_dataset('script_log', data=log)
        cfg = f.create_group('MetaData/Configuration')
        obs = cfg.create_group('Observation')
        for k, v in script_attrs.items():
            obs.attrs[k] = v
        corr = cfg.create_group('Correlator')
        if config_as_datasets:
            # the correlator configuration was issued twice during capture initialisation: datasets with two rows, of
            # which the LAST one is in force (the first is a superseded power-up configuration)
            corr.create_dataset('int_time', data=np.array([float(int_time) * 2, float(int_time)]))
            corr.create_dataset('n_chans', data=np.array([int(F) * 2, int(F)]))
            corr.create_dataset('bandwidth', data=np.array([float(bandwidth) / 2, float(bandwidth)]))
            corr.create_dataset('bls_ordering', data=np.array([corrprods[::-1], corrprods], dtype='S'))
        else:
            corr.attrs['int_time'] = float(int_time)
            corr.attrs['n_chans'] = int(F)
            corr.attrs['bandwidth'] = float(bandwidth)
            corr.attrs['bls_ordering'] = np.array(corrprods, dtype='S')
        cants = cfg.create_group('Antennas')
        sens = f.create_group('MetaData/Sensors')
        sants = sens.create_group('Antennas')
        for i, a in enumerate(ants):
            cants.create_group(a).attrs['description'] = ANT_DESCR.format(name=a, e=25.095 + 30 * i,
                                                                           n=-9.095 + 20 * i)
            g = sants.create_group(a)
            _sensor_dataset(g, 'activity', syn.activity)
            _sensor_dataset(g, 'target', syn.targets)
        _sensor_dataset(sens.create_group('RFE'), 'center-frequency-hz', cf_events)
        _sensor_dataset(sens.create_group('DBE'), 'dbe.mode', [(t0 - 2 * int_time, mode)])
        for name, events in _expand_extra(extra_sensors, ants).items():
            grp, sensor = name.rsplit('/', 1)
            _sensor_dataset(sens.require_group(grp), sensor, _abs_events(events, t0, int_time))

    centre = float(cf_events[0][1])
    # the reader builds SpectralWindow(centre, bandwidth / n_chans, n_chans, mode): default sideband -1
    eff_bandwidth = (float(bandwidth) / F) * F
    syn.stored = stored
    syn.n_stored_dumps = Ts
    syn.shape = (T, F, B)
    syn.corrprods, syn.ants = corrprods, ants
    syn.dump_period = float(int_time)
    syn.sideband, syn.centre_freq, syn.bandwidth = -1, centre, eff_bandwidth
    syn.vis = _pairs_to_complex(pairs[:T]).conjugate()
    syn.timestamps = ts_raw[:T] + 0.5 * int_time
    syn.freqs = centre - eff_bandwidth * (np.arange(F) - F // 2) / F
    syn.flags_raw = flags[:T].copy() if with_flags else np.zeros((T, F, B), np.uint8)
    syn.weights = weights[:T].copy() if with_weights else np.ones((T, F, B), np.float32)
    # documented: for v2.1 the 'script_' prefix is stripped except for script_name / script_arguments
    syn.obs_params = {(k if version > '2.1' or k in ('script_name', 'script_arguments') else k[7:]): v
                      for k, v in script_attrs.items()}
    return _finish(syn, open_kwargs, open)


# ----------------------------------------------------------------------------------------------------------
# version 1 (Fringe Finder)
# ----------------------------------------------------------------------------------------------------------

def make_v1(path, rng, scans=None, F=6, n_ants=2, open_kwargs=None, shuffle_bls=True, dump_period=1.0,
            t0=1200000000.0, centre_freq=1822e6, channel_bandwidth=1e6, extra_sensors=None,
            version='1.3', open=True):
    """Write a v1 (Fringe Finder) file and open it.  `t0` is the MID time of the first dump; the file stores
    dump START times in milliseconds and the reader computes ms / 1000 + dump_period / 2.

    scans : list of (scan_label, target_descr, n_dumps) or (scan_label, target_descr, n_dumps, compscan_label)
        (compscan_label defaults to 'track').  Each entry is one Scans/CompoundScanK/ScanJ group; a new
        CompoundScan starts whenever target_descr or compscan_label differs from the previous entry.
        katdal derives the scan state from the labels: scan_label '' / 'slew' -> 'slew', 'cal' -> 'track',
        else 'track' if compscan_label == 'track' else 'scan'.
    extra_sensors : {'<ant>/<sensor>': events} -> Antennas/AntennaN/Sensors/<sensor> (katdal name
        'Antennas/<ant>/<sensor>').
    There are no flags or weights in v1: flags_raw is all zero, weights all one.
    """
    syn = H5Synth()
    syn.path, syn.version = str(path), 1
    if scans is None:
        scans = [('slew', TARGETS[0], 2), ('scan', TARGETS[0], 3), ('slew', TARGETS[1], 1), ('scan', TARGETS[1], 2)]
    scans = [tuple(s) + (('track',) if len(s) == 3 else ()) for s in scans]
    ants = [f'ant{i + 1}' for i in range(n_ants)]
    # old-style DBE input labels: antenna i -> '<i>x' (H) and '<i>y' (V)
    corrprods = default_corrprods(ants, rng, shuffle_bls, 'hv')
    dbe = {f'{a}h': f'{i}x' for i, a in enumerate(ants)}
    dbe.update({f'{a}v': f'{i}y' for i, a in enumerate(ants)})
    B = len(corrprods)
    T = int(sum(s[2] for s in scans))
    code = coord_codes((T, F, B))
    assert code.size < 2 ** 23
    vis = (code + 0.5j * code).astype(np.complex64)
    mid = t0 + dump_period * np.arange(T)
    ts_raw = (mid - 0.5 * dump_period) * 1000.0
    segments = np.cumsum([0] + [s[2] for s in scans])

    with h5py.File(path, 'w') as f:
        f.attrs['version'] = version
        f.attrs['augment'] = 'synthetic'
        f.attrs['observer'] = 'verif'
        f.attrs['description'] = 'synthetic v1'
        f.attrs['experiment_id'] = 'x1'
        ag = f.create_group('Antennas')
        for i, a in enumerate(ants):
            g = ag.create_group(f'Antenna{i + 1}')
            g.attrs['description'] = ANT_DESCR.format(name=a, e=25.095 + 30 * i, n=-9.095 + 20 * i)
            g.create_group('H').attrs['dbe_input'] = f'{i}x'
            g.create_group('V').attrs['dbe_input'] = f'{i}y'
            sg = g.create_group('Sensors')
            for name, events in _expand_extra(extra_sensors, ants).items():
                ant, sensor = name.split('/', 1)
                if ant == a:
                    _sensor_dataset(sg, sensor, _abs_events(events, t0, dump_period))
        cg = f.create_group('Correlator')
        cg.attrs['dump_rate_hz'] = 1.0 / dump_period
        cg.attrs['center_frequency_hz'] = float(centre_freq)
        cg.attrs['num_freq_channels'] = int(F)
        cg.attrs['channel_bandwidth_hz'] = float(channel_bandwidth)
        imap = np.zeros(B, dtype=[('correlator_product_id', 'i4'), ('input_product', 'S8')])
        imap['correlator_product_id'] = np.arange(B)
        imap['input_product'] = [(dbe[a] + dbe[b]).encode() for a, b in corrprods]
        cg.create_dataset('input_map', data=imap)
        sc = f.create_group('Scans')
        k, prev, cs = -1, None, None
        compscan_index = []
        for n, (label, target, n_dumps, cs_label) in enumerate(scans):
            if (target, cs_label) != prev:
                k += 1
                cs = sc.create_group(f'CompoundScan{k}')
                cs.attrs['label'] = cs_label
                cs.attrs['target'] = target
                prev, j = (target, cs_label), 0
            compscan_index.append(k)
            s = cs.create_group(f'Scan{j}')
            j += 1
            s.attrs['label'] = label
            sl = slice(segments[n], segments[n + 1])
            rec = np.zeros((n_dumps, F), dtype=[(str(b), 'c8') for b in range(B)])
            for b in range(B):
                rec[str(b)] = vis[sl, :, b]
            s.create_dataset('data', data=rec)
            s.create_dataset('timestamps', data=ts_raw[sl])

    # the reader derives dump_period = 1 / dump_rate_hz and SpectralWindow(centre, channel_width, F, 'poco')
    rd_period = 1.0 / (1.0 / dump_period)
    eff_bandwidth = float(channel_bandwidth) * F
    syn.stored = {'vis': vis, 'timestamps_raw': ts_raw}
    syn.n_stored_dumps = T
    syn.shape = (T, F, B)
    syn.corrprods, syn.ants = corrprods, ants
    syn.dump_period = rd_period
    syn.sideband, syn.centre_freq, syn.bandwidth = -1, float(centre_freq), eff_bandwidth
    syn.vis = vis.conjugate()
    syn.timestamps = ts_raw / 1000.0 + 0.5 * rd_period
    syn.freqs = float(centre_freq) - eff_bandwidth * (np.arange(F) - F // 2) / F
    syn.flags_raw = np.zeros((T, F, B), np.uint8)
    syn.weights = np.ones((T, F, B), np.float32)
    syn.scans, syn.segments, syn.compscan_index = scans, segments, compscan_index
    syn.obs_params = {'observer': 'verif', 'description': 'synthetic v1', 'experiment_id': 'x1'}
    syn.activity = syn.targets = syn.labels = None
    return _finish(syn, open_kwargs, open)
