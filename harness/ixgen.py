"""Index-expression generation and encoding shared by the indexing properties (C01, C04, C05, C19).

An index on one axis is a tuple: ('i', int) | ('s', a, b, c) | ('m', [bool]) | ('l', [int]).
"""
import numpy as np


def enc_ix(ix):
    k = ix[0]
    if k == 'i':
        return f'i:{ix[1]}'
    if k == 's':
        return 's:' + ':'.join('_' if v is None else str(v) for v in ix[1:])
    if k == 'm':
        return 'm:' + ''.join('1' if b else '0' for b in ix[1])
    if k == 'l':
        return 'l:' + ','.join(str(v) for v in ix[1])
    raise ValueError(ix)


def enc_tuple(ixs):
    return '-' if not ixs else ';'.join(enc_ix(i) for i in ixs)


def enc_shape(shape):
    return '-' if not shape else 'x'.join(str(s) for s in shape)


def to_py(ix, rng=None, as_array=None):
    """Turn an index into the Python object handed to katdal.  Lists/masks are randomly
    presented as list or ndarray (both are documented forms)."""
    k = ix[0]
    if k == 'i':
        return int(ix[1])
    if k == 's':
        return slice(ix[1], ix[2], ix[3])
    arr = as_array if as_array is not None else (rng.random() < 0.5 if rng else True)
    if k == 'm':
        return np.array(ix[1], dtype=bool) if arr else [bool(b) for b in ix[1]]
    if k == 'l':
        return np.array(ix[1], dtype=int) if arr else [int(v) for v in ix[1]]
    raise ValueError(ix)


def parse_sels(s):
    """Model reply `o:3;m:1,2` -> list of ('o', k) | ('m', [ks]); or ('E', name)."""
    if s.startswith('E:'):
        return ('E', s[2:])
    if s == '-':
        return []
    out = []
    for part in s.split(';'):
        k, v = part.split(':')
        if k == 'o':
            out.append(('o', int(v)))
        else:
            out.append(('m', [int(x) for x in v.split(',')] if v else []))
    return out


def apply_sels(src, sels):
    """Outer-index ndarray `src` by resolved per-axis selections."""
    out = src
    axis = 0
    for kind, v in sels:
        if kind == 'o':
            out = np.take(out, v, axis=axis)
        else:
            out = np.take(out, np.array(v, dtype=int), axis=axis)
            axis += 1
    return out


def gen_slice(rng, n, allow_neg_step=True, wild=True):
    def bound():
        r = rng.random()
        if r < 0.3:
            return None
        if wild and r < 0.45:
            return rng.randint(-n - 3, n + 3)
        return rng.randint(-n, n) if n else rng.randint(-1, 1)
    r = rng.random()
    if r < 0.45:
        step = None
    elif r < 0.6:
        step = 1
    elif r < 0.85 or not allow_neg_step:
        step = rng.randint(2, 4)
    else:
        step = -rng.randint(1, 3)
    return ('s', bound(), bound(), step)


def gen_mask(rng, n):
    r = rng.random()
    if r < 0.1:
        return ('m', [False] * n)
    if r < 0.2:
        return ('m', [True] * n)
    p = rng.choice([0.15, 0.5, 0.85])
    return ('m', [rng.random() < p for _ in range(n)])


def gen_inc_list(rng, n):
    """strictly increasing non-negative list; biased to 1 / 2 / many contiguous segments."""
    if n == 0:
        return ('l', [])
    r = rng.random()
    if r < 0.08:
        return ('l', [])
    if r < 0.35:   # evenly spaced
        step = rng.randint(1, 3)
        start = rng.randrange(n)
        return ('l', list(range(start, n, step))[:rng.randint(1, n)])
    if r < 0.6:    # two runs
        a = rng.randrange(n)
        b = rng.randint(a, n - 1)
        c = rng.randint(b, n - 1)
        d = rng.randint(c, n - 1)
        l = sorted(set(list(range(a, b + 1)) + list(range(c, d + 1))))
        return ('l', l)
    k = rng.randint(1, n)
    return ('l', sorted(rng.sample(range(n), k)))


def gen_any_list(rng, n):
    """unsorted / repeated / negative entries allowed (all within bounds)"""
    if n == 0:
        return ('l', [])
    k = rng.randint(1, n + 2)
    lo = -n if rng.random() < 0.5 else 0
    return ('l', [rng.randint(lo, n - 1) for _ in range(k)])


def gen_int(rng, n, neg=True):
    if n == 0:
        return ('i', 0)
    return ('i', rng.randint(-n if neg else 0, n - 1))


def np_len(n, ix):
    """length of axis after applying ix with numpy (None if the axis is dropped)"""
    k = ix[0]
    if k == 'i':
        return None
    if k == 's':
        return len(range(*slice(ix[1], ix[2], ix[3]).indices(n)))
    if k == 'm':
        return int(sum(bool(b) for b in ix[1]))
    return len(ix[1])
