/-
  C13 — Applying calibration: composition, invalid-gain handling and invertibility.

  "With calibration applied, each visibility equals the stored visibility multiplied by the product,
   over the selected calibration products, of correction(first input) times the conjugate of
   correction(second input) at that dump and channel, each weight is divided by the squared magnitude
   of that factor and flags are unchanged; wherever the factor is not a number, as results from
   missing, zero or invalid solutions, the visibility is left as stored, its weight becomes zero and
   the postproc flag is raised, so such solutions never turn a finite stored value into NaN.  Each
   product's corrections are mapped onto the data channels by that product's own channelisation, the
   result does not depend on chunking or on which subset is loaded, and data corrupted by known
   per-input gains, delays and bandpasses are restored to within single-precision rounding when the
   same solutions are supplied at every dump."

  Model: KatdalModel/Model/ApplyCal.lean (mirror of `calc_correction`, `calc_correction_per_corrprod`,
  `_correction_block`, the three numba kernels).  Spec: `specFactor` / `specByLabel` / `specArray`.
  Scalars: `S` with an algebra `A : CAlg S F`; the laws used are listed in `CAlg.Lawful`
  (commutative monoid with a multiplicative conjugation) and hold for `Scalar K = nan | val x` over
  every field `K` with an involutive ring conjugation (`scalar_lawful`).  IEEE rounding is not
  modelled: "within single-precision rounding" is measured by the correspondence harness.
-/
import KatdalModel.Lemmas.ApplyCalAlg
import KatdalModel.Lemmas.ApplyCalCalc
import KatdalModel.Lemmas.ApplyCalInterp
import KatdalModel.Lemmas.ApplyCalWF
open Np ApplyCal

set_option linter.unusedSectionVars false

namespace C13

/-! ### a concrete configuration used by the non-vacuity examples:
    2 correlation products over inputs {"a","b"}, two products (one per-channel, one broadcast),
    2 dumps, 3 channels, scalars `Scalar Int` with trivial conjugation -/

def exOps : KOps Int Int :=
  { star := id, normSq := fun x => x * x, abs := fun x => x.natAbs, angle := fun _ => 0,
    polar := fun m _ => m, divReal := fun x r => x / r, cis := fun _ => 1 }

local instance : Inv Int := ⟨fun x => 1 / x⟩

def exA : CAlg (Scalar Int) Int := Scalar.alg exOps

def exParams : Params (Scalar Int) :=
  { inputs := ["a", "b"], idx1 := [0, 0], idx2 := [1, 0],
    prods := [
      { name := "l1.B", cmap := .direct,
        corr := [[[.val 2, .val 3, .nan], [.val 2, .val 3, .val 5]],
                 [[.val 7, .val 1, .val 1], [.val 7, .val 1, .val 1]]] },
      { name := "l1.G", cmap := .broadcast,
        corr := [[[.val 10], [.val 20]], [[.val 1], [.nan]]] }] }

/-! ### composition -/

/-- **c13_composition** — for every set and order of cal products (any `Params` that is well-formed:
    each product holds a correction vector of 1 / all data / mapped channels for every input and
    dump), every correlation-product list, dump `t` and channel range `[f0, f1)`:
    `calc_correction_per_corrprod` does not raise and its entry at `(f, b)` is
    `∏_p c_p(in₁(b), t, f) · conj c_p(in₂(b), t, f)`. -/
theorem c13_composition {S F : Type} (A : CAlg S F) (L : A.Lawful) (P : Params S) (nT nF t f0 f1 : Nat)
    (hwf : wfParams P nT nF = true) (ht : t < nT) (hf : f0 ≤ f1) (hF : f1 ≤ nF) :
    perCorrprod A P t f0 f1 = .ok ((List.range' f0 (f1 - f0)).map (specRow A P t)) := by
  rw [perCorrprod_eq A P nT nF t f0 f1 hwf ht hf hF]
  have : mirrorRow A P t = specRow A P t := funext (mirrorRow_eq_specRow A L P t)
  rw [this]

example : wfParams exParams 2 3 = true := by decide
example : perCorrprod exA exParams 0 1 3
    = .ok [[.val (3 * 10 * (1 * 1)), .val (3 * 10 * (3 * 10))], [.nan, .nan]] := by decide

/-- the laws hold for `Scalar K` over any field with an involutive ring conjugation -/
theorem c13_scalar_lawful {K F : Type} [Field K] [StarRing K] [DecidableEq K] [Zero F] (o : KOps K F) :
    (Scalar.alg (fieldOps o)).Lawful := scalar_lawful o

/-- **c13_composition_by_label** — the same through `calc_correction`'s set-up (sorted input list,
    `inputs.index` lookups, sensors fetched per sorted input, dict of products): the row at `(t, f)`
    lists, for every correlation product `(l₁, l₂)` in the caller's order, the product over the applied
    cal products of `c_p(l₁) · conj c_p(l₂)` where `c_p(l)` is looked up *by label*. -/
theorem c13_composition_by_label {S F : Type} [Sub F] [Neg F] [Zero F] [LT F] [DecidableLT F]
    (A : CAlg S F) (sensors : String → String → Option (List (List S)))
    (corrprods : List (String × String)) (calProducts : List String) (dataFreqs : List F)
    (allCalFreqs : String → Option (List F)) (atol : F) (skip : Bool) (P : Params S)
    (h : calcCorrection sensors corrprods calProducts dataFreqs allCalFreqs atol skip = .ok P) (t f : Nat) :
    specRow A P t f = corrprods.map fun cp =>
      specByLabel A sensors (P.prods.map fun p => (p.name, p.cmap)) cp.1 cp.2 t f := by
  unfold calcCorrection at h
  cases hr : productLoop sensors (sortedInputs corrprods) dataFreqs allCalFreqs atol skip calProducts [] none with
  | error e => simp [hr, bind, Except.bind] at h
  | ok r =>
    simp only [hr, bind, Except.bind, pure, Except.pure, Except.ok.injEq] at h
    subst h
    have hinv := productLoop_inv sensors (sortedInputs corrprods) dataFreqs allCalFreqs atol skip
      calProducts [] none r ⟨by simp, by simp⟩ hr
    have hfetch : ∀ p ∈ lateBind r.2 r.1, fetchSensors sensors p.name (sortedInputs corrprods) = some p.corr := by
      intro p hp
      have hm : (p.name, p.corr) ∈ (lateBind r.2 r.1).map (fun p => (p.name, p.corr)) :=
        List.mem_map_of_mem (f := fun p => (p.name, p.corr)) hp
      rw [lateBind_name_corr] at hm
      simp only [List.mem_map, Prod.mk.injEq] at hm
      obtain ⟨q, hq, hn, hc⟩ := hm
      rw [← hn, ← hc]
      exact productOf_fetch sensors _ dataFreqs allCalFreqs atol (hinv.1 q hq)
    simp only [specRow, mkParams, zip_map_pair, List.map_map]
    apply List.map_congr_left
    intro cp hcp
    simp only [Function.comp, specFactor, specByLabel]
    exact specFactor_eq_byLabel A sensors _ cp.1 cp.2
      (mem_sortedInputs.mpr ⟨cp, hcp, Or.inl rfl⟩) (mem_sortedInputs.mpr ⟨cp, hcp, Or.inr rfl⟩) t f _ _ hfetch

/-- **c13_product_order** — the factor does not depend on the order in which the cal products are
    listed -/
theorem c13_product_order {S F : Type} (A : CAlg S F) (L : A.Lawful) {ps qs : List (Product S)}
    (h : ps.Perm qs) (i1 i2 t f : Nat) : specFactor A ps i1 i2 t f = specFactor A qs i1 i2 t f :=
  specFactor_perm A L h i1 i2 t f

example : specFactor exA exParams.prods 0 1 0 1 = specFactor exA exParams.prods.reverse 0 1 0 1 := by decide

/-! ### kernels -/

/-- **c13_kernels (vis)** — multiplied iff the factor is not NaN, else left as stored -/
theorem c13_kernels_vis {S F : Type} (A : CAlg S F) (d c : S) :
    applyVis1 A d c = if A.isNan c = true then d else A.mul d c := by
  unfold applyVis1
  cases A.isNan c <;> simp

/-- **c13_kernels (weights)** — the code's guard is `|c|² > 0` (false for NaN): divided iff so, else 0 -/
theorem c13_kernels_weights {S F : Type} [Div F] [Zero F] [LT F] [DecidableLT F] (A : CAlg S F) (w : F) (c : S) :
    applyWeight1 A w c = match A.normSq c with
      | some n => if 0 < n then w / n else 0
      | none => 0 := rfl

/-- in the exact algebra: NaN factor ⇒ weight 0; number `z` ⇒ `w / N(z)` iff `N(z) > 0` -/
theorem c13_kernels_weights_scalar {K F : Type} [Mul K] [One K] [Inv K] [Zero K] [DecidableEq K]
    [Div F] [Zero F] [LT F] [DecidableLT F] (o : KOps K F) (w : F) :
    applyWeight1 (Scalar.alg o) w .nan = 0 ∧
    ∀ z, applyWeight1 (Scalar.alg o) w (.val z) = if 0 < o.normSq z then w / o.normSq z else 0 :=
  ⟨rfl, fun _ => rfl⟩

/-- **c13_kernels (flags)** — bit `postproc` is raised iff the factor is NaN; every other bit is
    unchanged -/
theorem c13_kernels_flags {S F : Type} (A : CAlg S F) (fl : Nat) (c : S) (i : Nat) :
    (applyFlag1 A fl c).testBit i
      = (fl.testBit i || (A.isNan c && decide (i = Tables.flagPostprocBit))) := by
  unfold applyFlag1
  have hp : Tables.flagPostproc = 2 ^ Tables.flagPostprocBit := by decide
  cases A.isNan c
  · simp
  · simp only [if_true, Nat.testBit_or, hp, Nat.testBit_two_pow, Bool.true_and]
    congr 2
    exact propext eq_comm

example : applyFlag1 exA 33 .nan = 161 ∧ applyFlag1 exA 33 (.val 2) = 33 := by decide

/-- the three nested loops of each kernel act element by element -/
theorem c13_kernels_elementwise {α β γ : Type} (k : α → β → γ) (d : List (List (List α)))
    (c : List (List (List β))) (i j l : Nat) (x : α) (y : β)
    (hd : ∃ p r, d[i]? = some p ∧ p[j]? = some r ∧ r[l]? = some x)
    (hc : ∃ p r, c[i]? = some p ∧ p[j]? = some r ∧ r[l]? = some y) :
    ∃ p r, (zip3 k d c)[i]? = some p ∧ p[j]? = some r ∧ r[l]? = some (k x y) := by
  obtain ⟨p1, r1, h1, h2, h3⟩ := hd
  obtain ⟨p2, r2, g1, g2, g3⟩ := hc
  refine ⟨List.zipWith (List.zipWith k) p1 p2, List.zipWith k r1 r2, ?_, ?_, ?_⟩
  · simp [zip3, List.getElem?_zipWith, h1, g1]
  · simp [List.getElem?_zipWith, h2, g2]
  · simp [List.getElem?_zipWith, h3, g3]

/-- **c13_no_nan_from_invalid** — a NaN factor leaves the stored value untouched … -/
theorem c13_no_nan_from_invalid {S F : Type} (A : CAlg S F) (d c : S) (h : A.isNan c = true) :
    applyVis1 A d c = d := by
  simp [applyVis1, h]

/-- … and in exact arithmetic a stored number never becomes NaN, whatever the factor is -/
theorem c13_no_nan_from_invalid_scalar {K F : Type} [Mul K] [One K] [Inv K] [Zero K] [DecidableEq K] [Zero F]
    (o : KOps K F) (x : K) (c : Scalar K) : ∃ y, applyVis1 (Scalar.alg o) (.val x) c = .val y := by
  cases c with
  | nan => exact ⟨x, rfl⟩
  | val z => exact ⟨x * z, rfl⟩

example : applyVis1 exA (.val 5) .nan = .val 5 ∧ applyVis1 exA (.val 5) (.val 3) = .val 15 := by decide

/-! ### channel maps -/

section chan
variable {F : Type} [Field F] [LinearOrder F]

/-- **c13_channel_map (choice)** — the map installed for a product with `n` correction channels -/
theorem c13_channel_map_choice (atol : F) (n : Nat) (dataFreqs calFreqs : List F) :
    (n = 1 → chooseMap atol n dataFreqs calFreqs = .broadcast) ∧
    (n ≠ 1 → n = dataFreqs.length →
      (calFreqs.length ≠ dataFreqs.length ∨ allclose atol calFreqs dataFreqs = true) →
      chooseMap atol n dataFreqs calFreqs = .direct) ∧
    (n ≠ 1 → ¬ (n = dataFreqs.length ∧
        (calFreqs.length ≠ dataFreqs.length ∨ allclose atol calFreqs dataFreqs = true)) →
      chooseMap atol n dataFreqs calFreqs = .expand (expandMap dataFreqs calFreqs)) := by
  refine ⟨fun h => by simp [chooseMap, h], fun h1 h2 h3 => ?_, fun h1 h2 => ?_⟩
  · simp only [chooseMap, h1, if_false]
    rw [if_pos ⟨h2, h3⟩]
  · simp only [chooseMap, h1, if_false]
    rw [if_neg h2]

/-- **c13_channel_map (nearest channel)** — entry `k` of the `expand` table is the *first* cal channel
    whose frequency is nearest to data channel `k` -/
theorem c13_channel_map_nearest (dataFreqs calFreqs : List F) (hne : calFreqs ≠ []) (k : Nat) (f : F)
    (hk : dataFreqs[k]? = some f) :
    ∃ j g, (expandMap dataFreqs calFreqs)[k]? = some j ∧ calFreqs[j]? = some g ∧
      (∀ g' ∈ calFreqs, absF (f - g) ≤ absF (f - g')) ∧
      (∀ j' g', j' < j → calFreqs[j']? = some g' → absF (f - g) < absF (f - g')) := by
  have hne' : calFreqs.map (fun g => absF (f - g)) ≠ [] := by simpa using hne
  obtain ⟨m, hm, hmin, hstrict⟩ := argminFirst_spec _ hne'
  rw [List.getElem?_map] at hm
  cases hg : calFreqs[argminFirst (calFreqs.map fun g => absF (f - g))]? with
  | none => simp [hg] at hm
  | some g =>
    simp only [hg, Option.map_some, Option.some.injEq] at hm
    subst hm
    refine ⟨_, g, by simp [expandMap, hk], hg, ?_, ?_⟩
    · intro g' hg'
      exact hmin _ (List.mem_map_of_mem (f := fun g => absF (f - g)) hg')
    · intro j' g' hj' hg'
      exact hstrict j' hj' _ (by simp [List.getElem?_map, hg'])

end chan

example : expandMap (F := Int) [10, 20, 30, 40] [12, 28, 36] = [0, 0, 1, 2] := by decide

section own
variable {S F : Type} [Sub F] [Neg F] [Zero F] [LT F] [DecidableLT F]

/-- **c13_channel_map (own channelisation, as intended)** — every product kept by the loop carries the
    map chosen from *its own* stream's frequencies and *its own* number of channels -/
theorem c13_channel_map_own (sensors : String → String → Option (List (List S)))
    (corrprods : List (String × String)) (calProducts : List String) (dataFreqs : List F)
    (allCalFreqs : String → Option (List F)) (atol : F) (skip : Bool) (P : Params S)
    (h : calcCorrectionIntended sensors corrprods calProducts dataFreqs allCalFreqs atol skip = .ok P) :
    ∀ p ∈ P.prods, productOf sensors (sortedInputs corrprods) dataFreqs allCalFreqs atol p.name = some p := by
  unfold calcCorrectionIntended at h
  cases hr : productLoop sensors (sortedInputs corrprods) dataFreqs allCalFreqs atol skip calProducts [] none with
  | error e => simp [hr, bind, Except.bind] at h
  | ok r =>
    simp only [hr, bind, Except.bind, pure, Except.pure, Except.ok.injEq] at h
    subst h
    exact (productLoop_inv sensors (sortedInputs corrprods) dataFreqs allCalFreqs atol skip
      calProducts [] none r ⟨by simp, by simp⟩ hr).1

/-- **c13_channel_map_partial** — the code as written (nearest-channel tables late-bound through the
    closure variable `expand`) installs every product's own map *provided all products that need a
    nearest-channel table need the same one* (e.g. at most one cal stream whose channelisation
    differs from the data). -/
theorem c13_channel_map_partial (sensors : String → String → Option (List (List S)))
    (corrprods : List (String × String)) (calProducts : List String) (dataFreqs : List F)
    (allCalFreqs : String → Option (List F)) (atol : F) (skip : Bool) (P : Params S)
    (h : calcCorrectionIntended sensors corrprods calProducts dataFreqs allCalFreqs atol skip = .ok P)
    (hone : ∀ p ∈ P.prods, ∀ q ∈ P.prods, ∀ e1 e2, p.cmap = .expand e1 → q.cmap = .expand e2 → e1 = e2) :
    calcCorrection sensors corrprods calProducts dataFreqs allCalFreqs atol skip = .ok P := by
  unfold calcCorrectionIntended at h
  unfold calcCorrection
  cases hr : productLoop sensors (sortedInputs corrprods) dataFreqs allCalFreqs atol skip calProducts [] none with
  | error e => simp [hr, bind, Except.bind] at h
  | ok r =>
    simp only [hr, bind, Except.bind, pure, Except.pure, Except.ok.injEq] at h ⊢
    subst h
    have hinv := productLoop_inv sensors (sortedInputs corrprods) dataFreqs allCalFreqs atol skip
      calProducts [] none r ⟨by simp, by simp⟩ hr
    rw [lateBind_eq_self]
    intro e he p hp e' hpe
    obtain ⟨q, hq, hqe⟩ := hinv.2 e he
    exact hone p hp q hq e' e hpe hqe

end own

/-- the witness: two cal streams whose channelisations both differ from the data's (2 and 3 channels
    against 4 data channels), one product of each -/
def witnessSensors : String → String → Option (List (List Nat))
  | "l1.G", _ => some [[1, 2]]
  | "l2.G", _ => some [[1, 2, 3]]
  | _, _ => none

def witnessFreqs : String → Option (List Int)
  | "l1" => some [10, 30]
  | "l2" => some [10, 20, 30]
  | _ => none

/-- **c13_channel_map_full_is_false** — without that proviso the statement "each product's corrections
    are mapped by that product's own channelisation" fails for the code as written: the first
    product ends up with the second product's table. -/
theorem c13_channel_map_full_is_false :
    (calcCorrection witnessSensors [("a", "a")] ["l1.G", "l2.G"] [10, 20, 30, 40] witnessFreqs (0 : Int) false).map
        (fun P => P.prods.map (·.cmap))
      ≠ (calcCorrectionIntended witnessSensors [("a", "a")] ["l1.G", "l2.G"] [10, 20, 30, 40] witnessFreqs (0 : Int)
          false).map (fun P => P.prods.map (·.cmap)) := by decide

example : (calcCorrectionIntended witnessSensors [("a", "a")] ["l1.G", "l2.G"] [10, 20, 30, 40] witnessFreqs (0 : Int)
    false).map (fun P => P.prods.map (·.cmap)) = .ok [.expand [0, 0, 1, 1], .expand [0, 1, 2, 2]] := by decide

/-- **c13_calc_wellformed** — what `calc_correction` (with every product's own map) builds satisfies the
    well-formedness that `c13_composition` / `c13_chunk_invariant` assume, whenever the correction
    sensors have the shapes the correction calculators produce (`SensorShapes`: ≥ `nT` dumps; per
    product one channel count, which is 1, the number of data channels or the number of channels of
    the product's stream). -/
theorem c13_calc_wellformed {S F : Type} [Field F] [LinearOrder F]
    (sensors : String → String → Option (List (List S)))
    (corrprods : List (String × String)) (calProducts : List String) (dataFreqs : List F)
    (allCalFreqs : String → Option (List F)) (atol : F) (skip : Bool) (P : Params S) (nT : Nat) (hT : 0 < nT)
    (hshape : SensorShapes sensors dataFreqs allCalFreqs nT)
    (h : calcCorrectionIntended sensors corrprods calProducts dataFreqs allCalFreqs atol skip = .ok P) :
    wfParams P nT dataFreqs.length = true := by
  have hown := c13_channel_map_own sensors corrprods calProducts dataFreqs allCalFreqs atol skip P h
  unfold calcCorrectionIntended at h
  cases hr : productLoop sensors (sortedInputs corrprods) dataFreqs allCalFreqs atol skip calProducts [] none with
  | error e => simp [hr, bind, Except.bind] at h
  | ok r =>
    simp only [hr, bind, Except.bind, pure, Except.pure, Except.ok.injEq] at h
    subst h
    simp only [mkParams] at hown
    simp only [wfParams, mkParams, Bool.and_eq_true, List.all_eq_true, List.mem_map]
    refine ⟨⟨?_, ?_⟩, ?_⟩
    · intro p hp
      exact productOf_wf sensors _ dataFreqs allCalFreqs atol nT hT hshape p.name p (hown p hp)
    · rintro _ ⟨cp, hcp, rfl⟩
      exact decide_eq_true (List.idxOf_lt_length_iff.mpr (mem_sortedInputs.mpr ⟨cp, hcp, Or.inl rfl⟩))
    · rintro _ ⟨cp, hcp, rfl⟩
      exact decide_eq_true (List.idxOf_lt_length_iff.mpr (mem_sortedInputs.mpr ⟨cp, hcp, Or.inr rfl⟩))

/-! ### chunking -/

/-- **c13_chunk_invariant** — for any chunking of the time and frequency axes (chunk sizes `ct`, `cf`),
    the array assembled from the per-chunk blocks (each computed from its absolute location) is the
    pointwise function `specArray`; so is any single block, wherever it lies. -/
theorem c13_chunk_invariant {S F : Type} (A : CAlg S F) (L : A.Lawful) (P : Params S) (nT nF : Nat)
    (hwf : wfParams P nT nF = true) (ct cf : List Nat) (hT : ct.sum ≤ nT) (hF : cf.sum ≤ nF) :
    assemble A P cf 0 ct = .ok (specArray A P 0 ct.sum 0 cf.sum) := by
  have := assemble_eq A P nT nF cf hwf hF ct 0 (by omega)
  rw [this, mirrorArray_eq_specArray A L]
  simp

theorem c13_block_pointwise {S F : Type} (A : CAlg S F) (L : A.Lawful) (P : Params S) (nT nF t0 t1 f0 f1 : Nat)
    (hwf : wfParams P nT nF = true) (ht : t1 ≤ nT) (hf : f0 ≤ f1) (hF : f1 ≤ nF) :
    block A P t0 t1 f0 f1 = .ok (specArray A P t0 t1 f0 f1) := by
  rw [block_eq A P nT nF t0 t1 f0 f1 hwf ht hf hF, mirrorArray_eq_specArray A L]

/-- two chunkings of the same extent give the same array -/
theorem c13_chunk_independent {S F : Type} (A : CAlg S F) (L : A.Lawful) (P : Params S) (nT nF : Nat)
    (hwf : wfParams P nT nF = true) (ct cf ct' cf' : List Nat) (hT : ct.sum ≤ nT) (hF : cf.sum ≤ nF)
    (hT' : ct'.sum = ct.sum) (hF' : cf'.sum = cf.sum) :
    assemble A P cf 0 ct = assemble A P cf' 0 ct' := by
  rw [c13_chunk_invariant A L P nT nF hwf ct cf hT hF,
    c13_chunk_invariant A L P nT nF hwf ct' cf' (by omega) (by omega), hT', hF']

example : assemble exA exParams [1, 2] 0 [2] = assemble exA exParams [3] 0 [1, 1] := by decide
example : assemble exA exParams [1, 2] 0 [2] = .ok (specArray exA exParams 0 2 0 3) := by decide

/-! ### invertibility -/

section inv
variable {K F : Type} [Field K] [StarRing K] [DecidableEq K] [Zero F]

/-- the factor the model builds when every correction is the reciprocal of the corresponding gain -/
def factorOf (o : KOps K F) (gs : List (K × K)) : Scalar K :=
  gs.foldl (fun acc g => (Scalar.alg (fieldOps o)).mul acc
    ((Scalar.alg (fieldOps o)).mul ((Scalar.alg (fieldOps o)).inv (.val g.1))
      ((Scalar.alg (fieldOps o)).conj ((Scalar.alg (fieldOps o)).inv (.val g.2))))) (Scalar.alg (fieldOps o)).one

theorem factorOf_eq (o : KOps K F) (gs : List (K × K)) (h : ∀ g ∈ gs, g.1 ≠ 0 ∧ g.2 ≠ 0) :
    factorOf o gs = .val (inverseFactor gs) := by
  unfold factorOf inverseFactor
  have key : ∀ (l : List (K × K)) (c : K), (∀ g ∈ l, g.1 ≠ 0 ∧ g.2 ≠ 0) →
      l.foldl (fun acc g => (Scalar.alg (fieldOps o)).mul acc
        ((Scalar.alg (fieldOps o)).mul ((Scalar.alg (fieldOps o)).inv (.val g.1))
          ((Scalar.alg (fieldOps o)).conj ((Scalar.alg (fieldOps o)).inv (.val g.2))))) (.val c)
      = .val (l.foldl (fun acc g => acc * (g.1⁻¹ * star g.2⁻¹)) c) := by
    intro l
    induction l with
    | nil => intro c _; rfl
    | cons g l ih =>
      intro c hl
      obtain ⟨h1, h2⟩ := hl g (List.mem_cons_self ..)
      simp only [List.foldl_cons]
      have : (Scalar.alg (fieldOps o)).mul (.val c)
          ((Scalar.alg (fieldOps o)).mul ((Scalar.alg (fieldOps o)).inv (.val g.1))
            ((Scalar.alg (fieldOps o)).conj ((Scalar.alg (fieldOps o)).inv (.val g.2))))
          = .val (c * (g.1⁻¹ * star g.2⁻¹)) := by
        simp [Scalar.alg, Scalar.inv, Scalar.mul, Scalar.map, fieldOps, h1, h2]
      rw [this]
      exact ih _ (fun g' hg' => hl g' (List.mem_cons_of_mem _ hg'))
  exact key gs 1 h

/-- **c13_invertible** — a visibility `v` corrupted by per-input gains `g₁ · conj g₂` of any number of
    effects (gain, delay, bandpass …) and then corrected with the factor built from the reciprocal
    gains is `v` again, exactly. -/
theorem c13_invertible (o : KOps K F) (v : K) (gs : List (K × K)) (h : ∀ g ∈ gs, g.1 ≠ 0 ∧ g.2 ≠ 0) :
    applyVis1 (Scalar.alg (fieldOps o)) (.val (corruptBy v gs)) (factorOf o gs) = .val v := by
  rw [factorOf_eq o gs h]
  have := corrupt_inverse gs h v 1
  simp only [applyVis1, Scalar.alg, Scalar.isNan, Scalar.mul, Bool.not_false, if_true]
  unfold corruptBy inverseFactor
  rw [this, mul_one]

example : ∀ g ∈ [((2 : Int), (3 : Int)), (5, 7)], g.1 ≠ 0 ∧ g.2 ≠ 0 := by decide

end inv

example : (calcCorrection witnessSensors [("b", "a"), ("a", "a")] ["l1.G"] [10, 20, 30, 40] witnessFreqs (0 : Int)
    false).map (fun P => (P.inputs, P.idx1, P.idx2, P.prods.map (·.name)))
    = .ok (["a", "b"], [1, 0], [0, 0], ["l1.G"]) := by decide

end C13
