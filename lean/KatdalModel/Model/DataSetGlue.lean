/-
  C01 model: the per-format glue that turns the three selection masks into first-stage
  indexers, on top of the index algebra (C04 / C05 models).
-/
import KatdalModel.Model.LazyIndexer
import KatdalModel.Model.DaskIndexer
open Np Index

namespace Glue

/-- v2/v3 `_vislike_indexer`: when the stored array has one more dump than the mask (duplicate
    final dump written by the capture process) the mask is padded with one `False` -/
def padTimeMask (m : List Bool) (storedLen : Nat) : List Bool :=
  if m.length + 1 = storedLen then m ++ [false] else m

/-- the dumps / channels / corr_products attributes: `mask.nonzero()[0]` -/
def labelsOf (m : List Bool) : List Nat := nonzero m

/-- label vector restricted by a selection: `labels[keep]` -/
def pickLabels {α} (labels : List α) (ks : List Nat) : List α := ks.filterMap fun k => labels[k]?

/-- first-stage index tuple handed to the indexers -/
def stage1 (t f b : List Bool) : List Ix := [.mask t, .mask f, .mask b]

/-- keepdims (v1 always, v2/v3 on request): scalar-indexed axes are kept with length one -/
def keepdimsShape : List Sel → List Nat
  | [] => []
  | .one _ :: t => 1 :: keepdimsShape t
  | .many ks :: t => ks.length :: keepdimsShape t

/-- second-stage read of a selected data set: source coordinates per axis -/
def readSel (t f b : List Bool) (k2 : List Ix) : Except Err (List Sel) := do
  let s1 : List Sel := [.many (labelsOf t), .many (labelsOf f), .many (labelsOf b)]
  let shape1 := selShape s1
  let k2p := LazyIx.padTrunc 3 k2
  let s2 ← resolveAll shape1 k2p
  composeAll s1 s2

end Glue
