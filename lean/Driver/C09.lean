import Driver.Common
import KatdalModel.Model.S3Transport
open Drv S3

/-!  Line protocol of the C09 model driver.

  budget  = `total,connect,read,redirect,status,other` (`_` = None)
  force   = comma separated status codes (`-` = empty)
  word    = comma separated answers: `s<code>` `t<k>` `r<k>` `st` `ok` (`-` = empty)

  req <s|b> <len> <budget> <force> <word>            -> `D <requests>` | `E:<Class> <requests>`   (mirror model)
  spec <len> <budget> <force> <word>                 -> same, by the counting spec `specRun`
  getchunk <len> <budget> <force> <verified 0|1> <m|e|n> <wordChunk> <wordListing>
                                                     -> `<D|E:Class> <chunkReq> <listReq> <verifiedAfter 0|1>`
  iscomplete <budget> <force> <word>                 -> `T <n>` | `F <n>` | `E:<Class> <n>`
  token <now> <scheme> <host> <creds 0|1> <nparts> <hdr> <siglen> <sigok 0|1> <claims> <path>
        hdr    = `x` (undecodable) | `a:_` (no alg) | `a:<alg>`
        claims = `x` (not a JSON object) | `<exp>;<prefix>` with exp = `_`|`n`|<int>, prefix = `_`|`[]`|p1,p2,.. (`""` = empty string)
                                                     -> `D 1` (request goes out) | `E:<Class> 0`
-/

def parseBudget (s : String) : Option Budget :=
  match (s.splitOn ",").mapM parseOptInt with
  | some [t, c, r, d, st, o] => some ⟨t, c, r, d, st, o⟩
  | _ => none

def parseForce (s : String) : Option (List Nat) :=
  if s = "-" then some [] else parseNatList s

def parseFault (s : String) : Option Fault :=
  if s = "ok" then some .ok
  else if s = "st" then some .stall
  else match s.toList with
    | 's' :: r => (String.ofList r).toNat?.map Fault.status
    | 't' :: r => (String.ofList r).toNat?.map Fault.truncate
    | 'r' :: r => (String.ofList r).toNat?.map Fault.reset
    | _ => none

def parseWord (s : String) : Option (List Fault) :=
  if s = "-" then some [] else (s.splitOn ",").mapM parseFault

/-- the reader C08 proves `read_array` to be: whole object accepted, every strict prefix incomplete -/
def strictReader (len : Nat) : List UInt8 → Rd Unit :=
  fun p => if p.length < len then .incomplete else .ok ()

def mkReq (mode : Mode) (len : Nat) (force : List Nat) : Req Unit :=
  { forcelist := force, mode := mode, reader := strictReader len, body := List.replicate len 0 }

def showRes {α} : Except Err α → String
  | .ok _ => "D"
  | .error e => s!"E:{e.name}"

def parseBucket (s : String) : Option BucketState :=
  if s = "m" then some .missing else if s = "e" then some .empty else if s = "n" then some .nonEmpty else none

def parseHdr (s : String) : Option (Option (Option String)) :=
  if s = "x" then some none
  else if s = "a:_" then some (some none)
  else match s.splitOn ":" with
    | ["a", alg] => some (some (some alg))
    | _ => none

def parsePrefixes (s : String) : Option (List String) :=
  if s = "_" then none
  else if s = "[]" then some []
  else some ((s.splitOn ",").map fun p => if p = "\"\"" then "" else p)

def parseClaims (s : String) : Option (Option Claims) :=
  if s = "x" then some none
  else match s.splitOn ";" with
    | [e, p] =>
      let exp : Option ExpClaim :=
        if e = "_" then some .absent else if e = "n" then some .nonInt else e.toInt?.map ExpClaim.int
      exp.map fun ex => some { exp := ex, prefixes := parsePrefixes p }
    | _ => none

def step (line : String) : String :=
  match line.splitOn " " with
  | ["req", m, len, b, f, w] =>
    match (if m = "s" then some Mode.streaming else if m = "b" then some Mode.buffered else none),
          len.toNat?, parseBudget b, parseForce f, parseWord w with
    | some m, some len, some b, some f, some w =>
      let (r, n) := (mkReq m len f).request b w
      s!"{showRes r} {n}"
    | _, _, _, _, _ => "bad-op"
  | ["spec", len, b, f, w] =>
    match len.toNat?, parseBudget b, parseForce f, parseWord w with
    | some len, some b, some f, some w =>
      let (r, n) := specRun f len b 0 0 w 0
      match r with
      | none => s!"D {n}"
      | some e => s!"E:{e.name} {n}"
    | _, _, _, _ => "bad-op"
  | ["getchunk", len, b, f, v, bs, wc, wl] =>
    match len.toNat?, parseBudget b, parseForce f, parseBucket bs, parseWord wc, parseWord wl with
    | some len, some b, some f, some bs, some wc, some wl =>
      let env : Env := { forcelist := f, budget := b, listing := List.replicate 40 0 }
      let st : Store := ⟨if v = "1" then ["bucket"] else []⟩
      let r := getChunk env st "bucket" bs (strictReader len) (fun _ => true) (List.replicate len 0) wc wl
      let va := if "bucket" ∈ r.store.verified then "1" else "0"
      s!"{showRes r.result} {r.chunkRequests} {r.listRequests} {va}"
    | _, _, _, _, _, _ => "bad-op"
  | ["iscomplete", b, f, w] =>
    match parseBudget b, parseForce f, parseWord w with
    | some b, some f, some w =>
      let env : Env := { forcelist := f, budget := b, listing := [] }
      match isComplete env [] w with
      | (.ok true, n) => s!"T {n}"
      | (.ok false, n) => s!"F {n}"
      | (.error e, n) => s!"E:{e.name} {n}"
    | _, _, _ => "bad-op"
  | ["token", now, scheme, host, creds, nparts, hdr, siglen, sigok, claims, path] =>
    match now.toInt?, nparts.toNat?, parseHdr hdr, siglen.toNat?, parseClaims claims with
    | some now, some np, some h, some sl, some cl =>
      let t : Token := { nparts := np, headerAlg := h, sigLen := sl, sigDecodable := sigok = "1", claims := cl }
      let (r, n) := tokenRequest now scheme host (some t) (creds = "1") path (mkReq .buffered 0 []) ⟨none, none, none, none, none, none⟩ []
      s!"{showRes r} {n}"
    | _, _, _, _, _ => "bad-op"
  | _ => "bad-op"

def main : IO Unit := Drv.loop step
