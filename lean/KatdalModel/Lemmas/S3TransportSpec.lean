/-
  C09 lemmas, part 2: the streaming request loop refines the counting spec `specRun`;
  no partial data in either mode; buffered (`stream=False`) versus streaming requests.
-/
import KatdalModel.Lemmas.S3Transport

namespace S3
open Req

variable {α : Type}

/-! ### the budget after `nS` status faults and `nR` read faults -/

def spend (B : Budget) (nS nR : Nat) : Budget :=
  { B with total := B.total.map (· - ((nS + nR : Nat) : Int)),
           status := B.status.map (· - ((nS : Nat) : Int)),
           read := B.read.map (· - ((nR : Nat) : Int)) }

theorem spend_zero (B : Budget) : spend B 0 0 = B := by
  obtain ⟨t, c, r, d, s, o⟩ := B
  cases t <;> cases r <;> cases s <;> simp [spend]

theorem room_one_sub (o : Option Int) (m : Nat) : room 1 (o.map (· - ((m : Nat) : Int))) = room (m + 1) o := by
  cases o with
  | none => simp [room]
  | some v =>
    simp only [room, Option.map, decide_eq_decide]
    constructor <;> intro h <;> omega

theorem nonneg_sub (o : Option Int) (m : Nat) : nonneg (o.map (· - ((m : Nat) : Int))) = room m o := by
  cases o with
  | none => simp [room, nonneg]
  | some v =>
    simp only [room, nonneg, Option.map, decide_eq_decide]
    constructor <;> intro h <;> omega

theorem bump_spend_status (B : Budget) (nS nR : Nat) :
    (spend B nS nR).bump .status = spend B (nS + 1) nR := by
  obtain ⟨t, c, r, d, s, o⟩ := B
  cases t <;> cases s <;> simp [spend, Budget.bump, dec] <;> omega

theorem bump_spend_read (B : Budget) (nS nR : Nat) :
    (spend B nS nR).bump .read = spend B nS (nR + 1) := by
  obtain ⟨t, c, r, d, s, o⟩ := B
  cases t <;> cases r <;> simp [spend, Budget.bump, dec] <;> omega

theorem spend_wf_iff (B : Budget) (hB : B.wf = true) (nS nR : Nat) :
    (spend B nS nR).wf = (room (nS + nR) B.total && room nS B.status && room nR B.read) := by
  obtain ⟨ht, hc, hr, hd, hs, ho⟩ := wf_parts hB
  simp only [Budget.wf, spend, nonneg_sub, hc, hd, ho, Bool.and_true]
  cases room (nS + nR) B.total <;> cases room nS B.status <;> cases room nR B.read <;> rfl

/-- outcome of the spec as an `Except` -/
def specResult (a : α) : Option Err → Except Err α
  | none => .ok a
  | some e => .error e

theorem step_full_streaming (rq : Req α) (a : α) (hr : GoodReader rq a) (hm : rq.mode = .streaming)
    (b0 b : Budget) (k : Nat) (st : Bool) (hk : ¬ k < rq.body.length) :
    rq.onBody b0 b k st = .done (.ok a) := by
  simp [Req.onBody, hm, take_all rq.body k hk, hr.whole, Req.processed]

/-- The streaming request loop computes exactly what the counting spec says, for every script
    (transient or not) and every configured budget with non-negative counters. -/
theorem run_eq_specRun (rq : Req α) (a : α) (hr : GoodReader rq a) (hm : rq.mode = .streaming)
    (B : Budget) (hB : B.wf = true) :
    ∀ (w : List Fault) (nS nR : Nat) (b0 : Budget) (n : Nat),
      (spend B nS nR).wf = true →
      rq.run b0 (spend B nS nR) w n =
        (specResult a (specRun rq.forcelist rq.body.length B nS nR w n).1,
         (specRun rq.forcelist rq.body.length B nS nR w n).2) := by
  intro w
  induction w with
  | nil => intro nS nR b0 n _; simp [Req.run, specRun, hr.whole, specResult]
  | cons f w ih =>
    intro nS nR b0 n hwf
    have hwf' := hwf
    rw [spend_wf_iff B hB] at hwf'
    simp only [Bool.and_eq_true] at hwf'
    obtain ⟨⟨hT, hS⟩, hR⟩ := hwf'
    by_cases hf : transient rq.forcelist rq.body.length f = true
    · simp only [Req.run, specRun, hf, if_true]
      rw [step_transient_streaming rq a hr hm b0 _ f hf]
      rcases causeOf_cases f with hc | hc
      · simp only [hc, if_true, increment_status_wf _ hwf]
        have e1 : room 1 (spend B nS nR).total = room (nS + 1 + nR) B.total := by
          have := room_one_sub B.total (nS + nR)
          simp only [spend]; rw [this]; congr 1; omega
        have e2 : room 1 (spend B nS nR).status = room (nS + 1) B.status := by
          simp only [spend]; exact room_one_sub B.status nS
        rw [e1, e2, hR, Bool.and_true]
        by_cases hfit : (room (nS + 1 + nR) B.total && room (nS + 1) B.status) = true
        · simp only [hfit, if_true]
          rw [bump_spend_status]
          have hwf2 : (spend B (nS + 1) nR).wf = true := by
            rw [spend_wf_iff B hB]
            simp only [Bool.and_eq_true] at hfit
            simp [hfit.1, hfit.2, hR]
          exact ih (nS + 1) nR b0 (n + 1) hwf2
        · simp only [hfit]
          simp [specResult]
      · have hne : ¬ (Cause.read = Cause.status) := by decide
        simp only [hc, hne, if_false, increment_read_wf _ hwf]
        have e1 : room 1 (spend B nS nR).total = room (nS + (nR + 1)) B.total := by
          have := room_one_sub B.total (nS + nR)
          simp only [spend]; rw [this]; congr 1
        have e2 : room 1 (spend B nS nR).read = room (nR + 1) B.read := by
          simp only [spend]; exact room_one_sub B.read nR
        rw [e1, e2, hS, Bool.and_true]
        by_cases hfit : (room (nS + (nR + 1)) B.total && room (nR + 1) B.read) = true
        · simp only [hfit, if_true]
          rw [bump_spend_read]
          have hwf2 : (spend B nS (nR + 1)).wf = true := by
            rw [spend_wf_iff B hB]
            simp only [Bool.and_eq_true] at hfit
            simp [hfit.1, hfit.2, hS]
          exact ih nS (nR + 1) _ (n + 1) hwf2
        · simp only [hfit]
          simp [specResult]
    · simp only [Req.run, specRun, hf]
      cases f with
      | status c =>
        have hc : c ∉ rq.forcelist := by simpa [transient] using hf
        simp only [Req.step, hc, if_false]
        cases hrs : raiseForStatus c <;> simp [specResult, Option.orElse]
      | truncate k =>
        have hk : ¬ k < rq.body.length := by simpa [transient] using hf
        simp [Req.step, step_full_streaming rq a hr hm _ _ k false hk, specResult]
      | reset k =>
        have hk : ¬ k < rq.body.length := by simpa [transient] using hf
        simp [Req.step, step_full_streaming rq a hr hm _ _ k false hk, specResult]
      | stall =>
        have hk : ¬ 0 < rq.body.length := by simpa [transient] using hf
        simp [Req.step, step_full_streaming rq a hr hm _ _ 0 true hk, specResult]
      | ok =>
        simp [Req.step, step_full_streaming rq a hr hm _ _ rq.body.length false (Nat.lt_irrefl _), specResult]

/-! ### no partial data -/

theorem processed_ok {r : Rd α} {b : Budget} {a' : α} (h : processed r b = .done (.ok a')) : r = .ok a' := by
  cases r with
  | ok a => simp [processed] at h; rw [h]
  | invalid => simp [processed] at h
  | incomplete =>
    simp only [processed, retryRead] at h
    cases hb : b.increment .read <;> simp [hb] at h

theorem retryRead_not_ok {b : Budget} {a' : α} : (retryRead b : Step α) ≠ .done (.ok a') := by
  simp only [retryRead]
  cases hb : b.increment .read <;> simp

/-- Whatever a single answer makes the request return as data was accepted by the reader on the
    bytes that arrived: either the whole object or a prefix of it. -/
theorem onBody_ok (rq : Req α) (b0 b : Budget) (k : Nat) (st : Bool) (a' : α)
    (h : rq.onBody b0 b k st = .done (.ok a')) :
    rq.reader rq.body = .ok a' ∨ (k < rq.body.length ∧ rq.reader (rq.body.take k) = .ok a') := by
  unfold Req.onBody at h
  cases hm : rq.mode with
  | buffered =>
    simp only [hm] at h
    by_cases hk : k < rq.body.length
    · simp only [hk, if_true] at h
      cases st with
      | true => simp at h
      | false => simp only [Bool.false_eq_true, if_false] at h; exact absurd h retryRead_not_ok
    · simp only [hk, if_false] at h
      exact .inl (processed_ok h)
  | streaming =>
    simp only [hm] at h
    by_cases hk : k < rq.body.length
    · exact .inr ⟨hk, processed_ok h⟩
    · rw [take_all rq.body k hk] at h
      exact .inl (processed_ok h)

theorem step_ok (rq : Req α) (b0 b : Budget) (f : Fault) (a' : α) (h : rq.step b0 b f = .done (.ok a')) :
    rq.reader rq.body = .ok a' ∨ ∃ k, k < rq.body.length ∧ rq.reader (rq.body.take k) = .ok a' := by
  cases f with
  | status c =>
    simp only [Req.step] at h
    split at h
    · cases hb : b.increment .status <;> simp [hb] at h
    · cases hs : raiseForStatus c <;> simp [hs] at h
  | truncate k =>
    rcases onBody_ok rq b0 b k false a' h with h | h
    · exact .inl h
    · exact .inr ⟨k, h⟩
  | reset k =>
    rcases onBody_ok rq b0 b k false a' h with h | h
    · exact .inl h
    · exact .inr ⟨k, h⟩
  | stall =>
    rcases onBody_ok rq b0 b 0 true a' h with h | h
    · exact .inl h
    · exact .inr ⟨0, h⟩
  | ok =>
    rcases onBody_ok rq b0 b rq.body.length false a' h with h | h
    · exact .inl h
    · exact .inr ⟨_, h⟩

/-- Any data a request returns — any mode, any script, any budget — is what the reader made of
    the whole object or of a strict prefix of it. -/
theorem run_ok (rq : Req α) :
    ∀ (w : List Fault) (b0 b : Budget) (n m : Nat) (a' : α), rq.run b0 b w n = (.ok a', m) →
      rq.reader rq.body = .ok a' ∨ ∃ k, k < rq.body.length ∧ rq.reader (rq.body.take k) = .ok a' := by
  intro w
  induction w with
  | nil =>
    intro b0 b n m a' h
    simp only [Req.run] at h
    cases hr : rq.reader rq.body with
    | ok a => simp [hr] at h; left; rw [h.1]
    | invalid => simp [hr] at h
    | incomplete => simp [hr] at h
  | cons f w ih =>
    intro b0 b n m a' h
    simp only [Req.run] at h
    cases hs : rq.step b0 b f with
    | done r =>
      simp only [hs, Prod.mk.injEq] at h
      rw [h.1] at hs
      exact step_ok rq b0 b f a' hs
    | again b0' b' =>
      simp only [hs] at h
      exact ih b0' b' (n + 1) m a' h

/-- Buffered requests never even show a prefix to the reader. -/
theorem run_ok_buffered (rq : Req α) (hm : rq.mode = .buffered) :
    ∀ (w : List Fault) (b0 b : Budget) (n m : Nat) (a' : α), rq.run b0 b w n = (.ok a', m) →
      rq.reader rq.body = .ok a' := by
  intro w
  induction w with
  | nil =>
    intro b0 b n m a' h
    simp only [Req.run] at h
    cases hr : rq.reader rq.body with
    | ok a => simp [hr] at h; rw [h.1]
    | invalid => simp [hr] at h
    | incomplete => simp [hr] at h
  | cons f w ih =>
    intro b0 b n m a' h
    simp only [Req.run] at h
    cases hs : rq.step b0 b f with
    | done r =>
      simp only [hs, Prod.mk.injEq] at h
      rw [h.1] at hs
      have key : ∀ k st, rq.onBody b0 b k st = .done (.ok a') → rq.reader rq.body = .ok a' := by
        intro k st hb
        unfold Req.onBody at hb
        simp only [hm] at hb
        by_cases hk : k < rq.body.length
        · simp only [hk, if_true] at hb
          cases st with
          | true => simp at hb
          | false => simp only [Bool.false_eq_true, if_false] at hb; exact absurd hb retryRead_not_ok
        · simp only [hk, if_false] at hb
          exact processed_ok hb
      cases f with
      | status c =>
        simp only [Req.step] at hs
        split at hs
        · cases hb : b.increment .status <;> simp [hb] at hs
        · cases hs' : raiseForStatus c <;> simp [hs'] at hs
      | truncate k => exact key k false hs
      | reset k => exact key k false hs
      | stall => exact key 0 true hs
      | ok => exact key _ false hs
    | again b0' b' =>
      simp only [hs] at h
      exact ih b0' b' (n + 1) m a' h

/-! ### buffered versus streaming -/

def mkMode (rq : Req α) (m : Mode) : Req α := { rq with mode := m }

/-- first answer is not a read fault -/
def headNotRead (len : Nat) : List Fault → Bool
  | [] => true
  | f :: _ => !readFault len f

def noStall : List Fault → Bool
  | [] => true
  | .stall :: _ => false
  | _ :: w => noStall w

theorem onBody_full_modes (rq : Req α) (b0 b : Budget) (k : Nat) (st : Bool) (hk : ¬ k < rq.body.length) :
    (mkMode rq .buffered).onBody b0 b k st = (mkMode rq .streaming).onBody b0 b k st := by
  simp [Req.onBody, mkMode, hk, take_all rq.body k hk]

theorem onBody_short_modes (rq : Req α) (hstrict : ∀ k, k < rq.body.length → rq.reader (rq.body.take k) = .incomplete)
    (b : Budget) (k : Nat) (hk : k < rq.body.length) :
    (mkMode rq .buffered).onBody b b k false = (mkMode rq .streaming).onBody b b k false := by
  simp [Req.onBody, mkMode, hk, hstrict k hk, Req.processed]

/-- With `stream=False` the request loop behaves exactly like the streaming one on every script
    without stalls in which no forcelisted status answer is directly followed by a read fault.
    (`A`: both variables equal, `B`: adapter budget already ahead but next answer is no read fault.) -/
theorem buffered_eq_streaming (rq : Req α)
    (hstrict : ∀ k, k < rq.body.length → rq.reader (rq.body.take k) = .incomplete) :
    ∀ (w : List Fault), carrySafe rq.forcelist rq.body.length w = true → noStall w = true →
      (∀ (b : Budget) (n : Nat), (mkMode rq .buffered).run b b w n = (mkMode rq .streaming).run b b w n) ∧
      (∀ (b0 b : Budget) (n : Nat), headNotRead rq.body.length w = true →
        (mkMode rq .buffered).run b0 b w n = (mkMode rq .streaming).run b0 b w n) := by
  intro w
  induction w with
  | nil => intro _ _; simp [Req.run, mkMode]
  | cons f w ih =>
    intro hcs hns
    have hcs' : carrySafe rq.forcelist rq.body.length w = true := by
      simp only [carrySafe, Bool.and_eq_true] at hcs; exact hcs.2
    have hns' : noStall w = true := by
      cases f <;> simp [noStall] at hns ⊢ <;> exact hns
    obtain ⟨ihA, ihB⟩ := ih hcs' hns'
    -- the cases shared by A and B
    have full : ∀ (b0 b : Budget) (n k : Nat) (st : Bool), ¬ k < rq.body.length →
        (match (mkMode rq .buffered).onBody b0 b k st with
          | .done r => (r, n + 1)
          | .again b0' b' => (mkMode rq .buffered).run b0' b' w (n + 1)) =
        (match (mkMode rq .streaming).onBody b0 b k st with
          | .done r => (r, n + 1)
          | .again b0' b' => (mkMode rq .streaming).run b0' b' w (n + 1)) := by
      intro b0 b n k st hk
      rw [onBody_full_modes rq b0 b k st hk]
      cases hstep : (mkMode rq .streaming).onBody b0 b k st with
      | done r => rfl
      | again b0' b' =>
        have : b0' = b' := by
          simp only [Req.onBody, mkMode, Req.processed, Req.retryRead] at hstep
          cases hrd : rq.reader (List.take k rq.body) with
          | ok a => simp [hrd] at hstep
          | invalid => simp [hrd] at hstep
          | incomplete =>
            simp only [hrd] at hstep
            cases hb : b.increment .read with
            | none => simp [hb] at hstep
            | some b'' => simp [hb] at hstep; rw [← hstep.1, ← hstep.2]
        subst this
        exact ihA b0' (n + 1)
    have short : ∀ (b : Budget) (n k : Nat), k < rq.body.length →
        (match (mkMode rq .buffered).onBody b b k false with
          | .done r => (r, n + 1)
          | .again b0' b' => (mkMode rq .buffered).run b0' b' w (n + 1)) =
        (match (mkMode rq .streaming).onBody b b k false with
          | .done r => (r, n + 1)
          | .again b0' b' => (mkMode rq .streaming).run b0' b' w (n + 1)) := by
      intro b n k hk
      rw [onBody_short_modes rq hstrict b k hk]
      cases hstep : (mkMode rq .streaming).onBody b b k false with
      | done r => rfl
      | again b0' b' =>
        have : b0' = b' := by
          simp only [Req.onBody, mkMode, hstrict k hk, Req.processed, Req.retryRead] at hstep
          cases hb : b.increment .read with
          | none => simp [hb] at hstep
          | some b'' => simp [hb] at hstep; rw [← hstep.1, ← hstep.2]
        subst this
        exact ihA b0' (n + 1)
    have stat : ∀ (b0 b : Budget) (n c : Nat), f = .status c →
        (mkMode rq .buffered).run b0 b (f :: w) n = (mkMode rq .streaming).run b0 b (f :: w) n := by
      intro b0 b n c hfc
      subst hfc
      by_cases hc : c ∈ rq.forcelist
      · cases hb : b.increment .status with
        | none => simp [Req.run, Req.step, mkMode, hc, hb]
        | some b' =>
          have hh : headNotRead rq.body.length w = true := by
            cases w with
            | nil => rfl
            | cons g w' =>
              simp only [carrySafe, Bool.and_eq_true] at hcs
              have := hcs.1
              simp [hc] at this
              simp [headNotRead, this]
          have := ihB b0 b' (n + 1) hh
          simp only [Req.run, Req.step, mkMode, hc, hb, if_true] at this ⊢
          exact this
      · cases hrs : raiseForStatus c <;> simp [Req.run, Req.step, mkMode, hc, hrs]
    constructor
    · intro b n
      cases f with
      | status c => exact stat b b n c rfl
      | truncate k =>
        simp only [Req.run, Req.step]
        by_cases hk : k < rq.body.length
        · exact short b n k hk
        · exact full b b n k false hk
      | reset k =>
        simp only [Req.run, Req.step]
        by_cases hk : k < rq.body.length
        · exact short b n k hk
        · exact full b b n k false hk
      | stall => simp [noStall] at hns
      | ok =>
        simp only [Req.run, Req.step]
        exact full b b n _ false (by simp [mkMode])
    · intro b0 b n hh
      cases f with
      | status c => exact stat b0 b n c rfl
      | truncate k =>
        simp only [Req.run, Req.step]
        have hk : ¬ k < rq.body.length := by simpa [headNotRead, readFault] using hh
        exact full b0 b n k false hk
      | reset k =>
        simp only [Req.run, Req.step]
        have hk : ¬ k < rq.body.length := by simpa [headNotRead, readFault] using hh
        exact full b0 b n k false hk
      | stall => simp [noStall] at hns
      | ok =>
        simp only [Req.run, Req.step]
        exact full b0 b n _ false (by simp [mkMode])

/-! ### buffered requests are at least as patient as streaming ones -/

def optLe : Option Int → Option Int → Prop
  | _, none => True
  | none, some _ => False
  | some v, some v' => v ≤ v'

structure Budget.le (b b' : Budget) : Prop where
  total : optLe b.total b'.total
  connect : optLe b.connect b'.connect
  read : optLe b.read b'.read
  redirect : optLe b.redirect b'.redirect
  status : optLe b.status b'.status
  other : optLe b.other b'.other

theorem optLe_refl (o : Option Int) : optLe o o := by
  cases o <;> simp [optLe]

theorem optLe_trans {a b c : Option Int} (h1 : optLe a b) (h2 : optLe b c) : optLe a c := by
  cases a <;> cases b <;> cases c <;> simp [optLe] at * <;> omega

theorem optLe_dec {a b : Option Int} (h : optLe a b) : optLe (dec a) (dec b) := by
  cases a <;> cases b <;> simp [optLe, dec] at * <;> omega

theorem dec_le (a : Option Int) : optLe (dec a) a := by
  cases a <;> simp [optLe, dec] <;> omega

theorem neg_mono {a b : Option Int} (h : optLe a b) (hb : neg b = true) : neg a = true := by
  cases a <;> cases b <;> simp [optLe, neg] at * <;> omega

theorem Budget.le_refl (b : Budget) : b.le b :=
  ⟨optLe_refl _, optLe_refl _, optLe_refl _, optLe_refl _, optLe_refl _, optLe_refl _⟩

theorem Budget.le_trans {a b c : Budget} (h1 : a.le b) (h2 : b.le c) : a.le c :=
  ⟨optLe_trans h1.total h2.total, optLe_trans h1.connect h2.connect, optLe_trans h1.read h2.read,
   optLe_trans h1.redirect h2.redirect, optLe_trans h1.status h2.status, optLe_trans h1.other h2.other⟩

theorem bump_le (b : Budget) (c : Cause) : (b.bump c).le b := by
  cases c <;> exact ⟨by simp [Budget.bump, dec_le], by simp [Budget.bump, dec_le, optLe_refl],
    by simp [Budget.bump, dec_le, optLe_refl], by simp [Budget.bump, dec_le, optLe_refl],
    by simp [Budget.bump, dec_le, optLe_refl], by simp [Budget.bump, dec_le, optLe_refl]⟩

theorem bump_mono {b b' : Budget} (h : b.le b') (c : Cause) : (b.bump c).le (b'.bump c) := by
  cases c <;> exact ⟨by simp [Budget.bump, optLe_dec h.total], by simp [Budget.bump, optLe_dec h.connect, h.connect],
    by simp [Budget.bump, optLe_dec h.read, h.read], by simp [Budget.bump, optLe_dec h.redirect, h.redirect],
    by simp [Budget.bump, optLe_dec h.status, h.status], by simp [Budget.bump, optLe_dec h.other, h.other]⟩

theorem exhausted_mono {b b' : Budget} (h : b.le b') (hb : b'.exhausted = true) : b.exhausted = true := by
  simp only [Budget.exhausted, Bool.or_eq_true] at hb ⊢
  rcases hb with ((((hb | hb) | hb) | hb) | hb) | hb
  · exact .inl (.inl (.inl (.inl (.inl (neg_mono h.total hb)))))
  · exact .inl (.inl (.inl (.inl (.inr (neg_mono h.connect hb)))))
  · exact .inl (.inl (.inl (.inr (neg_mono h.read hb))))
  · exact .inl (.inl (.inr (neg_mono h.redirect hb)))
  · exact .inl (.inr (neg_mono h.status hb))
  · exact .inr (neg_mono h.other hb)

theorem increment_mono {b b' x : Budget} {c : Cause} (h : b.le b') (hx : b.increment c = some x) :
    ∃ y, b'.increment c = some y ∧ x.le y := by
  rw [increment_eq] at hx
  by_cases he : (b.bump c).exhausted = true
  · simp [he] at hx
  · simp only [he] at hx
    have he' : ¬ (b'.bump c).exhausted = true := fun h' => he (exhausted_mono (bump_mono h c) h')
    refine ⟨b'.bump c, by simp [increment_eq, he'], ?_⟩
    simp only [Bool.false_eq_true, if_false, Option.some.injEq] at hx
    rw [← hx]
    exact bump_mono h c

/-- If a stall-free transient script fits the budget (so a chunk request would return the data),
    a `stream=False` request returns the object too, after the same number of requests. -/
theorem buffered_fits_data (rq : Req α) (a : α) (hm : rq.mode = .buffered) (hwhole : rq.reader rq.body = .ok a) :
    ∀ (w : List Fault) (bs b0 b : Budget) (n : Nat),
      (∀ f ∈ w, transient rq.forcelist rq.body.length f = true) → noStall w = true →
      bs.le b0 → bs.le b → fits bs w = true →
      rq.run b0 b w n = (.ok a, n + w.length + 1) := by
  intro w
  induction w with
  | nil => intro bs b0 b n _ _ _ _ _; simp [Req.run, hwhole]
  | cons f w ih =>
    intro bs b0 b n hw hns h0 h1 hfit
    have hf := hw f (by simp)
    have hw' : ∀ g ∈ w, transient rq.forcelist rq.body.length g = true := fun g hg => hw g (by simp [hg])
    have hns' : noStall w = true := by
      cases f <;> simp [noStall] at hns ⊢ <;> exact hns
    simp only [fits] at hfit
    cases hi : bs.increment (causeOf f) with
    | none => simp [hi] at hfit
    | some bs' =>
      simp only [hi] at hfit
      have hle : bs'.le bs := by rw [increment_some hi]; exact bump_le _ _
      have short : ∀ k, k < rq.body.length → causeOf f = .read →
          (match rq.onBody b0 b k false with
            | .done r => (r, n + 1)
            | .again b0' b' => rq.run b0' b' w (n + 1)) = (.ok a, n + (f :: w).length + 1) := by
        intro k hk hc
        rw [hc] at hi
        obtain ⟨y, hy, hley⟩ := increment_mono h0 hi
        simp only [Req.onBody, hm, hk, if_true, Bool.false_eq_true, if_false, Req.retryRead, hy]
        rw [ih bs' y y (n + 1) hw' hns' hley hley hfit]
        simp only [List.length_cons, Prod.mk.injEq, true_and]; omega
      cases f with
      | status c =>
        have hc : c ∈ rq.forcelist := by simpa [transient] using hf
        simp only [causeOf] at hi
        obtain ⟨y, hy, hley⟩ := increment_mono h1 hi
        simp only [Req.run, Req.step, hc, if_true, hy]
        rw [ih bs' b0 y (n + 1) hw' hns' (Budget.le_trans hle h0) hley hfit]
        simp only [List.length_cons, Prod.mk.injEq, true_and]; omega
      | truncate k =>
        have hk : k < rq.body.length := by simpa [transient] using hf
        simp only [Req.run, Req.step]
        exact short k hk rfl
      | reset k =>
        have hk : k < rq.body.length := by simpa [transient] using hf
        simp only [Req.run, Req.step]
        exact short k hk rfl
      | stall => simp [noStall] at hns
      | ok => simp [transient] at hf

end S3
