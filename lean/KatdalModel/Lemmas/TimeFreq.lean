/-
  Helper lemmas for C17 (TimeFreq model): fix-date rule, spectral windows, unit-step slices.
-/
import KatdalModel.Model.TimeFreq
import KatdalModel.Lemmas.Range
open Np Index TimeFreq

namespace TimeFreqL

/-! ## fix-date rule -/

theorem fix_rule (d1 d2 d3 t : Rat) (h12 : d1 < d2) (h23 : d2 < d3) (cmc2 cbf4k : Bool) :
    fixApplies (decide (t < d1)) (decide (t < d2)) (decide (t < d3)) cmc2 cbf4k
      = decide (t < fixDate d1 d2 d3 cmc2 cbf4k) := by
  cases cmc2 <;> cases cbf4k <;> simp [fixApplies, fixDate] <;> grind

/-! ## spectral windows -/

theorem natCast_ne_zero {n : Nat} (h : 0 < n) : (n : Rat) ≠ 0 := by
  exact_mod_cast (Nat.pos_iff_ne_zero.mp h)

theorem new_wf_none (c wd : Rat) (n : Nat) (sb : Int) (hn : 0 < n) : (SpW.new c wd n sb none).wf := by
  simp [SpW.new, SpW.wf, hn]

theorem new_wf_some (c wd bw : Rat) (n : Nat) (sb : Int) (hn : 0 < n) :
    (SpW.new c wd n sb (some bw)).wf := by
  have := natCast_ne_zero hn
  simp [SpW.new, SpW.wf, hn]
  grind

theorem subrange_ok (w w' : SpW) (a b : Int) (h : w.subrange a b = .ok w') :
    0 ≤ a ∧ a < b ∧ b ≤ (w.n : Int) ∧
    w' = SpW.new (w.centre + (((a + b) / 2 - ((w.n / 2 : Nat) : Int) : Int) : Rat) * w.bandwidth
                    * (w.sideband : Rat) / (w.n : Rat))
          w.width (b - a).toNat w.sideband (some (w.bandwidth * ((b - a).toNat : Rat) / (w.n : Rat))) := by
  unfold SpW.subrange at h
  split at h
  · cases h
  · rename_i hr
    have hr : 0 ≤ a ∧ a < b ∧ b ≤ (w.n : Int) := by simpa using hr
    injection h with h
    exact ⟨hr.1, hr.2.1, hr.2.2, h.symm⟩

theorem subrange_freq (w w' : SpW) (a b : Int) (k : Nat) (hw : 0 < w.n)
    (h : w.subrange a b = .ok w') :
    w'.n = (b - a).toNat ∧ w'.sideband = w.sideband ∧ w'.freq k = w.freq (a.toNat + k) := by
  obtain ⟨h0, h1, h2, rfl⟩ := subrange_ok w w' a b h
  refine ⟨rfl, rfl, ?_⟩
  simp only [SpW.new, SpW.freq]
  have hn := natCast_ne_zero hw
  have hm : (((b - a).toNat : Nat) : Rat) ≠ 0 := natCast_ne_zero (by omega)
  have key : ((a + b) / 2 - ((w.n / 2 : Nat) : Int)) + ((k : Int) - (((b - a).toNat / 2 : Nat) : Int))
      = (((a.toNat + k : Nat) : Int) - ((w.n / 2 : Nat) : Int)) := by omega
  have key' := congrArg (fun z : Int => (z : Rat)) key
  grind

theorem subrange_wf (w w' : SpW) (a b : Int) (h : w.subrange a b = .ok w') : w'.wf := by
  obtain ⟨h0, h1, h2, rfl⟩ := subrange_ok w w' a b h
  exact new_wf_some _ _ _ _ _ (by omega)

theorem subrange_width (w w' : SpW) (a b : Int) (hw : w.wf) (h : w.subrange a b = .ok w') :
    w'.width = w.width ∧ w'.bandwidth = w.width * ((b - a).toNat : Rat) := by
  obtain ⟨h0, h1, h2, rfl⟩ := subrange_ok w w' a b h
  obtain ⟨hn, hb⟩ := hw
  have hn' := natCast_ne_zero hn
  have hm : (((b - a).toNat : Nat) : Rat) ≠ 0 := natCast_ne_zero (by omega)
  simp only [SpW.new]
  constructor <;> grind

theorem half_cases (n : Nat) :
    (n % 2 = 0 ∧ n = 2 * (n / 2)) ∨ (n % 2 = 1 ∧ n = 2 * (n / 2) + 1) := by omega

theorem castSub (k m : Nat) : (((k : Int) - (m : Int) : Int) : Rat) = (k : Rat) - (m : Rat) := by
  push_cast; rfl

/-- `freq` with the casts pushed to the leaves -/
theorem freq_eq (w : SpW) (k : Nat) :
    w.freq k = w.centre + (w.sideband : Rat) * w.bandwidth * ((k : Rat) - ((w.n / 2 : Nat) : Rat)) / (w.n : Rat) := by
  unfold SpW.freq
  rw [castSub]

/-- closed form of the outer edge of channel 0 -/
theorem edgeFirst_eq (w : SpW) (h : w.wf) :
    w.edgeFirst = bandCentre w - (w.sideband : Rat) * w.bandwidth / 2 := by
  obtain ⟨hn, hb⟩ := h
  have hn' := natCast_ne_zero hn
  simp only [SpW.edgeFirst, freq_eq, bandCentre]
  have hz : ((0 : Nat) : Rat) = 0 := by simp
  rcases half_cases w.n with ⟨h0, h1⟩ | ⟨h0, h1⟩
  · have h2 : (w.n : Rat) = 2 * ((w.n / 2 : Nat) : Rat) := by exact_mod_cast h1
    rw [if_pos h0]
    grind
  · have h2 : (w.n : Rat) = 2 * ((w.n / 2 : Nat) : Rat) + 1 := by exact_mod_cast h1
    rw [if_neg (by omega)]
    grind

/-- closed form of the outer edge of the last channel -/
theorem edgeLast_eq (w : SpW) (h : w.wf) :
    w.edgeLast = bandCentre w + (w.sideband : Rat) * w.bandwidth / 2 := by
  obtain ⟨hn, hb⟩ := h
  have hn' := natCast_ne_zero hn
  simp only [SpW.edgeLast, freq_eq, bandCentre]
  have h3 : ((w.n - 1 : Nat) : Rat) = (w.n : Rat) - 1 := by
    have : w.n = (w.n - 1) + 1 := by omega
    have h4 : (w.n : Rat) = ((w.n - 1 : Nat) : Rat) + 1 := by exact_mod_cast this
    grind
  rcases half_cases w.n with ⟨h0, h1⟩ | ⟨h0, h1⟩
  · have h2 : (w.n : Rat) = 2 * ((w.n / 2 : Nat) : Rat) := by exact_mod_cast h1
    rw [if_pos h0]
    grind
  · have h2 : (w.n : Rat) = 2 * ((w.n / 2 : Nat) : Rat) + 1 := by exact_mod_cast h1
    rw [if_neg (by omega)]
    grind

theorem rechannelise_fields (w : SpW) (m : Nat) (hm : m ≠ w.n) :
    (w.rechannelise m).n = m ∧ (w.rechannelise m).sideband = w.sideband ∧
    (w.rechannelise m).bandwidth = w.bandwidth ∧ (w.rechannelise m).width = w.bandwidth / (m : Rat) := by
  simp [SpW.rechannelise, hm, SpW.new]

theorem rechannelise_wf (w : SpW) (m : Nat) (hw : w.wf) (hm : 0 < m) : (w.rechannelise m).wf := by
  by_cases h : m = w.n
  · simp [SpW.rechannelise, h]; exact hw
  · simp only [SpW.rechannelise, h, if_false]
    exact new_wf_some _ _ _ _ _ hm

theorem rechannelise_bandCentre (w : SpW) (m : Nat) (hm : 0 < m) :
    bandCentre (w.rechannelise m) = bandCentre w := by
  by_cases h : m = w.n
  · simp [SpW.rechannelise, h]
  · have hm' := natCast_ne_zero hm
    simp only [SpW.rechannelise, h, if_false, bandCentre, SpW.new]
    split <;> split <;> grind

/-! ## unit-step slices select a contiguous run of positions -/

theorem rangeList_unit : ∀ (k : Nat) (s e : Int), (e - s).toNat = k → 0 ≤ s →
    (rangeList s e 1).map Int.toNat = List.range' s.toNat k := by
  intro k
  induction k with
  | zero =>
    intro s e hk hs
    rw [rangeList_pos_nil (by omega) (by omega)]; rfl
  | succ k ih =>
    intro s e hk hs
    rw [rangeList_pos_cons (by omega) (by omega)]
    simp only [List.map_cons, List.range'_succ]
    rw [ih (s + 1) e (by omega) (by omega)]
    have : (s + 1).toNat = s.toNat + 1 := by omega
    rw [this]

theorem rangeAux_shift (st lo : Int) : ∀ (k : Nat) (x : Int),
    (rangeAux st k x).map (· + lo) = rangeAux st k (x + lo) := by
  intro k
  induction k with
  | zero => intro x; rfl
  | succ k ih =>
    intro x
    simp only [rangeAux, List.map_cons, ih]
    have : x + st + lo = x + lo + st := by omega
    rw [this]

/-- translating a range translates its bounds -/
theorem rangeList_shift (s e st : Int) (lo : Nat) :
    (rangeList s e st).map (· + (lo : Int)) = rangeList (s + lo) (e + lo) st := by
  unfold rangeList
  have : rangeLen (s + lo) (e + lo) st = rangeLen s e st := by
    unfold rangeLen
    have h1 : e + (lo : Int) - (s + lo) = e - s := by omega
    have h2 : s + (lo : Int) - (e + lo) = s - e := by omega
    rw [h1, h2]
  rw [this, rangeAux_shift]

theorem sliceIndices_unit (n : Nat) (a b c : Option Int) (hc : c = none ∨ c = some 1) :
    ∃ lo hi : Nat, lo ≤ n ∧ hi ≤ n ∧ sliceIndices n a b c = some ((lo : Int), (hi : Int), 1) := by
  have hst : c.getD 1 = 1 := by rcases hc with rfl | rfl <;> rfl
  cases h : sliceIndices n a b c with
  | none =>
    unfold sliceIndices at h
    simp [hst] at h
  | some t =>
    obtain ⟨s, e, st⟩ := t
    have hb := sliceIndices_bounds h
    have hst' : st = 1 := by
      unfold sliceIndices at h
      simp [hst] at h
      omega
    subst hst'
    have := hb.2.1 (by omega)
    refine ⟨s.toNat, e.toNat, by omega, by omega, ?_⟩
    have h1 : ((s.toNat : Nat) : Int) = s := by omega
    have h2 : ((e.toNat : Nat) : Int) = e := by omega
    rw [h1, h2]

theorem unit_positions (n : Nat) (a b c : Option Int) (hc : c = none ∨ c = some 1) :
    (PreVal.slice a b c).positions n
      = .ok (List.range' (selRange n (some (.slice a b c))).1
              ((selRange n (some (.slice a b c))).2 - (selRange n (some (.slice a b c))).1)) ∧
    (selRange n (some (.slice a b c))).1 ≤ n ∧ (selRange n (some (.slice a b c))).2 ≤ n := by
  obtain ⟨lo, hi, hlo, hhi, h⟩ := sliceIndices_unit n a b c hc
  simp only [PreVal.positions, sliceList, selRange, h, Option.map_some, Int.toNat_natCast]
  refine ⟨?_, hlo, hhi⟩
  have := rangeList_unit (hi - lo) (lo : Int) (hi : Int) (by omega) (by omega)
  simp only [Int.toNat_natCast] at this
  rw [this]

theorem full_positions (n : Nat) : fullSlice.positions n = .ok (List.range' 0 n) := by
  have := (unit_positions n none none none (Or.inl rfl)).1
  rw [fullSlice, this]
  have h : sliceIndices n none none none = some ((0 : Int), (n : Int), 1) := by
    simp [sliceIndices]
  simp [selRange, h]

/-- a preselect that passed validation: each present value is a unit-step slice -/
theorem validate_ok (p : Preselect) (h : validatePreselect p = .ok ()) :
    p.extra = [] ∧
    (∀ v, p.dumps = some v → ∃ a b c, v = .slice a b c ∧ (c = none ∨ c = some 1)) ∧
    (∀ v, p.channels = some v → ∃ a b c, v = .slice a b c ∧ (c = none ∨ c = some 1)) := by
  unfold validatePreselect at h
  have hu : ∀ v : PreVal, v.unitSlice = true → ∃ a b c, v = .slice a b c ∧ (c = none ∨ c = some 1) := by
    intro v hv
    cases v with
    | other => simp [PreVal.unitSlice] at hv
    | slice a b c =>
      refine ⟨a, b, c, rfl, ?_⟩
      simpa [PreVal.unitSlice] using hv
  split at h
  · cases h
  · rename_i h1
    split at h
    · cases h
    · rename_i h2
      split at h
      · cases h
      · rename_i h3
        refine ⟨by simpa using h1, ?_, ?_⟩
        · intro v hv
          apply hu
          simpa [hv] using h2
        · intro v hv
          apply hu
          simpa [hv] using h3

/-- positions picked on an axis by an optional, validated preselect value -/
theorem opt_positions (n : Nat) (v : Option PreVal)
    (hv : ∀ x, v = some x → ∃ a b c, x = .slice a b c ∧ (c = none ∨ c = some 1)) :
    (v.getD fullSlice).positions n = .ok (List.range' (selRange n v).1 ((selRange n v).2 - (selRange n v).1)) ∧
    (selRange n v).1 ≤ n ∧ (selRange n v).2 ≤ n := by
  cases v with
  | none =>
    simp only [Option.getD_none, full_positions, selRange]
    simp
  | some x =>
    obtain ⟨a, b, c, rfl, hc⟩ := hv x rfl
    simpa using unit_positions n a b c hc

/-! ## the pieces of `openV4` -/

theorem rawTimestamps_getD (c : Cfg) (i : Nat) (h : i < c.T) :
    (rawTimestamps c).getD i default = rawT c i := by
  simp [rawTimestamps, rawT, List.getD, h]

theorem openSource_spec (c : Cfg) (p : Preselect) (db cb : List Nat) (ts1 : List Rat)
    (h : openSource c p = .ok (db, cb, ts1)) :
    validatePreselect p = .ok () ∧
    db = List.range' (selRange c.T p.dumps).1 ((selRange c.T p.dumps).2 - (selRange c.T p.dumps).1) ∧
    cb = List.range' (selRange c.F p.channels).1 ((selRange c.F p.channels).2 - (selRange c.F p.channels).1) ∧
    ts1 = db.map (rawT c) ∧
    (selRange c.T p.dumps).2 ≤ c.T ∧ (selRange c.F p.channels).2 ≤ c.F := by
  unfold openSource at h
  cases hv : validatePreselect p with
  | error e => simp [hv, bind, Except.bind] at h
  | ok u =>
    obtain ⟨_, hd, hc⟩ := validate_ok p hv
    obtain ⟨hpd, hd1, hd2⟩ := opt_positions c.T p.dumps hd
    obtain ⟨hpc, hc1, hc2⟩ := opt_positions c.F p.channels hc
    simp only [hv, hpd, hpc, bind, Except.bind, pure, Except.pure] at h
    refine ⟨rfl, ?_⟩
    cases hdp : p.dumps with
    | none =>
      simp only [hdp] at h hd2 ⊢
      injection h with h
      simp only [Prod.mk.injEq] at h
      obtain ⟨h1, h2, h3⟩ := h
      refine ⟨h1.symm, h2.symm, ?_, hd2, hc2⟩
      subst h1 h3
      simp [selRange, rawTimestamps, rawT, List.range_eq_range']
    | some v =>
      obtain ⟨a, b, cc, rfl, hcc⟩ := hd v hdp
      simp only [hdp] at h hd2 hpd ⊢
      have hlen : (rawTimestamps c).length = c.T := by simp [rawTimestamps]
      simp only [sliceOf, hlen, (unit_positions c.T a b cc hcc).1, bind, Except.bind, pure, Except.pure] at h
      injection h with h
      simp only [Prod.mk.injEq] at h
      obtain ⟨h1, h2, h3⟩ := h
      refine ⟨h1.symm, h2.symm, ?_, hd2, hc2⟩
      subst h1 h3
      apply List.map_congr_left
      intro i hi
      have := List.mem_range'_1.mp hi
      exact rawTimestamps_getD c i (by omega)

/-- the correction subtracted from every timestamp when the first (shifted) timestamp is `t0` -/
def corr (c : Cfg) (t0 : Rat) : Rat :=
  match fixApplies (decide (t0 < c.d1)) (decide (t0 < c.d2)) (decide (t0 < c.d3)) c.cmc2 c.cbf4k, c.cbf with
  | true, some q => q
  | _, _ => 0

theorem shiftTimestamps_spec (c : Cfg) (ts1 ts3 : List Rat) (off : Rat)
    (h : shiftTimestamps c ts1 = .ok (ts3, off)) :
    ∃ t1 rest, ts1 = t1 :: rest ∧ off = c.timeOffset - corr c (t1 + c.timeOffset) ∧
      ts3 = ts1.map (· + off) := by
  cases ts1 with
  | nil => simp [shiftTimestamps, getNat, bind, Except.bind] at h
  | cons t1 rest =>
    refine ⟨t1, rest, rfl, ?_⟩
    simp only [shiftTimestamps, getNat, List.map_cons, List.getElem?_cons_zero, bind, Except.bind,
      pure, Except.pure] at h
    unfold corr
    split at h
    · rename_i q ha hq
      injection h with h
      simp only [Prod.mk.injEq] at h
      obtain ⟨h1, h2⟩ := h
      simp only [ha, hq]
      refine ⟨h2.symm, ?_⟩
      rw [← h1, ← h2]
      simp only [List.map_map, List.map_cons, List.cons.injEq]
      constructor
      · grind
      · apply List.map_congr_left
        intro x _
        simp only [Function.comp]
        grind
    · rename_i hne
      injection h with h
      simp only [Prod.mk.injEq] at h
      obtain ⟨h1, h2⟩ := h
      have hc : (match fixApplies (decide (t1 + c.timeOffset < c.d1)) (decide (t1 + c.timeOffset < c.d2))
            (decide (t1 + c.timeOffset < c.d3)) c.cmc2 c.cbf4k, c.cbf with
          | true, some q => q
          | _, _ => (0 : Rat)) = 0 := by
        split
        · rename_i q ha hq
          exact absurd hq (hne q ha)
        · rfl
      rw [hc]
      refine ⟨by rw [← h2]; grind, ?_⟩
      rw [← h1, ← h2]
      rfl

theorem spwWhole_wf (c : Cfg) (hF : 0 < c.F) : (spwWhole c).wf := new_wf_none _ _ _ _ hF

theorem spwWhole_freq (c : Cfg) (hF : 0 < c.F) (k : Nat) :
    (spwWhole c).freq k = c.centre + ((k : Rat) - ((c.F / 2 : Nat) : Rat)) * c.bandwidth / (c.F : Rat) := by
  have := natCast_ne_zero hF
  rw [freq_eq]
  simp only [spwWhole, SpW.new]
  grind

theorem openSpw_spec (c : Cfg) (p : Preselect) (w : SpW) (hF : 0 < c.F)
    (hv : validatePreselect p = .ok ()) (h : openSpw c p = .ok w) :
    (selRange c.F p.channels).1 < (selRange c.F p.channels).2 ∧
    w.n = (selRange c.F p.channels).2 - (selRange c.F p.channels).1 ∧
    w.sideband = 1 ∧ w.wf ∧
    ∀ k, w.freq k = (spwWhole c).freq ((selRange c.F p.channels).1 + k) := by
  obtain ⟨_, _, hc⟩ := validate_ok p hv
  unfold openSpw at h
  cases hch : p.channels with
  | none =>
    simp only [hch, pure, Except.pure] at h
    injection h with h
    subst h
    refine ⟨by simpa [selRange] using hF, by simp [selRange, SpW.new], by simp [SpW.new],
      new_wf_none _ _ _ _ hF, ?_⟩
    intro k
    simp [selRange, spwWhole]
  | some v =>
    obtain ⟨a, b, cc, rfl, hcc⟩ := hc v hch
    obtain ⟨lo, hi, hlo, hhi, hsi⟩ := sliceIndices_unit c.F a b cc hcc
    simp only [hch, hsi] at h
    have hn : (SpW.new c.centre (c.bandwidth / (c.F : Rat)) c.F 1 none).n = c.F := by simp [SpW.new]
    obtain ⟨h0, h1, h2, _⟩ := subrange_ok _ _ _ _ h
    obtain ⟨g1, g2, g3⟩ := subrange_freq _ w (lo : Int) (hi : Int) 0 (by rw [hn]; exact hF) h
    have hwf := subrange_wf _ _ _ _ h
    simp only [selRange, hsi, Int.toNat_natCast]
    refine ⟨by omega, by omega, by simpa [SpW.new] using g2, hwf, ?_⟩
    intro k
    have := (subrange_freq _ w (lo : Int) (hi : Int) k (by rw [hn]; exact hF) h).2.2
    simpa [spwWhole] using this

theorem getD_map_range' {α} (f : Nat → α) (lo m i : Nat) (d : α) (h : i < m) :
    ((List.range' lo m).map f).getD i d = f (lo + i) := by
  simp [List.getD, h]

theorem getD_range' (lo m i d : Nat) (h : i < m) : (List.range' lo m).getD i d = lo + i := by
  have := getD_map_range' id lo m i d h
  simpa using this

/-- everything `openV4` returns, in closed form -/
theorem openV4_spec (c : Cfg) (p : Preselect) (o : Opened) (hF : 0 < c.F) (h : openV4 c p = .ok o) :
    validatePreselect p = .ok () ∧
    (selRange c.T p.dumps).1 < (selRange c.T p.dumps).2 ∧ (selRange c.T p.dumps).2 ≤ c.T ∧
    (selRange c.F p.channels).1 < (selRange c.F p.channels).2 ∧ (selRange c.F p.channels).2 ≤ c.F ∧
    o.dumpBase = List.range' (selRange c.T p.dumps).1 ((selRange c.T p.dumps).2 - (selRange c.T p.dumps).1) ∧
    o.chanBase = List.range' (selRange c.F p.channels).1
                  ((selRange c.F p.channels).2 - (selRange c.F p.channels).1) ∧
    o.timeOffset = c.timeOffset - corr c (rawT c (selRange c.T p.dumps).1 + c.timeOffset) ∧
    o.ts = (List.range' (selRange c.T p.dumps).1 ((selRange c.T p.dumps).2 - (selRange c.T p.dumps).1)).map
              (fun i => rawT c i + o.timeOffset) ∧
    o.startT = rawT c (selRange c.T p.dumps).1 + o.timeOffset - c.intTime / 2 ∧
    o.endT = rawT c ((selRange c.T p.dumps).2 - 1) + o.timeOffset + c.intTime / 2 ∧
    o.spw.n = (selRange c.F p.channels).2 - (selRange c.F p.channels).1 ∧
    o.spw.sideband = 1 ∧ o.spw.wf ∧
    ∀ k, o.spw.freq k = (spwWhole c).freq ((selRange c.F p.channels).1 + k) := by
  unfold openV4 at h
  cases hs : openSource c p with
  | error e => simp [hs, bind, Except.bind] at h
  | ok r =>
    obtain ⟨db, cb, ts1⟩ := r
    obtain ⟨hv, hdb, hcb, hts1, hT, hFF⟩ := openSource_spec c p db cb ts1 hs
    simp only [hs, bind, Except.bind] at h
    cases hsh : shiftTimestamps c ts1 with
    | error e => simp [hsh] at h
    | ok r2 =>
      obtain ⟨ts3, off⟩ := r2
      obtain ⟨t1, rest, hcons, hoff, hts3⟩ := shiftTimestamps_spec c ts1 ts3 off hsh
      simp only [hsh] at h
      cases hw : openSpw c p with
      | error e => simp [hw] at h
      | ok w =>
        obtain ⟨hc1, hc2, hc3, hc4, hc5⟩ := openSpw_spec c p w hF hv hw
        simp only [hw, pure, Except.pure] at h
        injection h with h
        subst h
        simp only
        generalize hlo : (selRange c.T p.dumps).1 = lo at *
        generalize hhi : (selRange c.T p.dumps).2 = hi at *
        -- non-empty: the first timestamp exists
        have hne : lo < hi := by
          rcases Nat.lt_or_ge lo hi with hlt | hge
          · exact hlt
          · have : hi - lo = 0 := by omega
            rw [hdb, this] at hts1
            simp at hts1
            rw [hts1] at hcons
            cases hcons
        have hm : hi - lo = (hi - lo - 1) + 1 := by omega
        have ht1 : t1 = rawT c lo := by
          rw [hdb, hm, List.range'_succ] at hts1
          rw [hts1] at hcons
          simp at hcons
          exact hcons.1.symm
        subst ht1
        have hts3' : ts3 = (List.range' lo (hi - lo)).map (fun i => rawT c i + off) := by
          rw [hts3, hts1, hdb, List.map_map]
          rfl
        refine ⟨hv, hne, hT, hc1, hFF, hdb, hcb, hoff, hts3', ?_, ?_, hc2, hc3, hc4, hc5⟩
        · rw [hts3']
          rw [hm, List.range'_succ]
          simp
          grind
        · rw [hts3']
          have hl : ((List.range' lo (hi - lo)).map (fun i => rawT c i + off)).length = hi - lo := by simp
          rw [hl, getD_map_range' _ _ _ _ _ (by omega)]
          have : lo + (hi - lo - 1) = hi - 1 := by omega
          rw [this]
          grind

/-! ## later selections on a preselected axis -/

theorem normList_ofNat (n : Nat) : ∀ (ks : List Nat), (∀ k ∈ ks, k < n) →
    normList n (ks.map Int.ofNat) = .ok ks := by
  intro ks
  induction ks with
  | nil => intro _; rfl
  | cons k t ih =>
    intro h
    have hk : k < n := h k (by simp)
    have ht := ih (fun x hx => h x (by simp [hx]))
    have : (0 : Int) ≤ Int.ofNat k ∧ Int.ofNat k < (n : Int) := by
      simp only [Int.ofNat_eq_natCast]; omega
    simp only [List.map_cons, normList, normInt, ht, this, bind, Except.bind, pure, Except.pure]
    simp

/-- `select(dumps=[k...])` keeps exactly the listed positions, in increasing order -/
theorem keepPositions_list (n : Nat) (ks : List Nat) (h : ∀ k ∈ ks, k < n) :
    keepPositions n (some (.list (ks.map Int.ofNat)))
      = .ok ((List.range n).filter fun i => ks.contains i) := by
  simp [keepPositions, Ix.resolve, normList_ofNat n ks h, bind, Except.bind, pure, Except.pure]

theorem keepPositions_lt (n : Nat) (σ : Option Ix) (ks : List Nat) (h : keepPositions n σ = .ok ks) :
    (∀ k ∈ ks, k < n) ∧ (List.range n).filter (fun i => ks.contains i) = ks := by
  cases σ with
  | none =>
    simp only [keepPositions] at h
    injection h with h
    subst h
    constructor
    · intro k hk; simpa using hk
    · apply List.filter_eq_self.mpr
      intro a ha; simpa using ha
  | some ix =>
    simp only [keepPositions, bind, Except.bind, pure, Except.pure] at h
    cases hr : ix.resolve n with
    | error e => simp [hr] at h
    | ok s =>
      simp only [hr] at h
      injection h with h
      subst h
      constructor
      · intro k hk
        have := (List.mem_filter.mp hk).1
        simpa using this
      · apply List.filter_congr
        intro a ha
        simp only [List.contains_eq_mem, List.mem_filter, ha, true_and]
        simp

/-- shifting the kept positions of a sub-axis `[lo, lo+m)` into the whole axis of length `n` -/
theorem filter_shift (n lo m : Nat) (ks : List Nat) (hm : lo + m ≤ n) (hk : ∀ k ∈ ks, k < m) :
    (List.range n).filter (fun i => (ks.map (lo + ·)).contains i)
      = ((List.range m).filter fun i => ks.contains i).map (lo + ·) := by
  obtain ⟨r, rfl⟩ : ∃ r, n = lo + (m + r) := ⟨n - lo - m, by omega⟩
  rw [List.range_add, List.range_add, List.filter_append, List.map_append, List.filter_append]
  have h1 : (List.range lo).filter (fun i => (ks.map (lo + ·)).contains i) = [] := by
    apply List.filter_eq_nil_iff.mpr
    intro a ha
    simp only [List.mem_range] at ha
    simp only [List.contains_eq_mem, List.mem_map, decide_eq_true_eq, not_exists, not_and]
    intro x _ ; omega
  have h3 : ((List.range r).map (m + ·) |>.map (lo + ·)).filter (fun i => (ks.map (lo + ·)).contains i) = [] := by
    apply List.filter_eq_nil_iff.mpr
    intro a ha
    simp only [List.map_map, List.mem_map, List.mem_range, Function.comp] at ha
    obtain ⟨y, _, rfl⟩ := ha
    simp only [List.contains_eq_mem, List.mem_map, decide_eq_true_eq, not_exists, not_and]
    intro x hx
    have := hk x hx
    omega
  rw [h1, h3, List.nil_append, List.append_nil, List.filter_map]
  congr 1
  apply List.filter_congr
  intro a _
  simp [Function.comp]

/-- kept positions of a sub-axis, re-expressed on the whole axis -/
theorem keepPositions_shift (n lo m : Nat) (σ : Option Ix) (ks : List Nat) (hm : lo + m ≤ n)
    (h : keepPositions m σ = .ok ks) :
    keepPositions n (some (.list ((ks.map (lo + ·)).map Int.ofNat))) = .ok (ks.map (lo + ·)) := by
  obtain ⟨hlt, hfix⟩ := keepPositions_lt m σ ks h
  rw [keepPositions_list n (ks.map (lo + ·))]
  · rw [filter_shift n lo m ks hm hlt, hfix]
  · intro k hk
    simp only [List.mem_map] at hk
    obtain ⟨x, hx, rfl⟩ := hk
    have := hlt x hx
    omega

theorem selRange_none (n : Nat) : selRange n none = (0, n) := rfl

/-- Observables of "open with preselect, then select σ" and of "open whole, then select σ shifted into
    the whole axes" coincide when both openings made the same workaround decision. -/
theorem observe_shift (c : Cfg) (p : Preselect) (P W : Opened) (hF : 0 < c.F)
    (hP : openV4 c p = .ok P) (hW : openV4 c {} = .ok W) (hsame : P.timeOffset = W.timeOffset)
    (σd σc : Option Ix) (kd kc : List Nat)
    (hkd : keepPositions P.ts.length σd = .ok kd) (hkc : keepPositions P.spw.n σc = .ok kc) :
    P.observe σd σc
      = W.observe (some (.list ((kd.map ((selRange c.T p.dumps).1 + ·)).map Int.ofNat)))
                  (some (.list ((kc.map ((selRange c.F p.channels).1 + ·)).map Int.ofNat))) := by
  obtain ⟨_, p1, p2, p3, p4, pdb, pcb, _, pts, _, _, pn, _, _, pfreq⟩ := openV4_spec c p P hF hP
  obtain ⟨_, _, _, _, _, wdb, wcb, _, wts, _, _, wn, _, _, wfreq⟩ := openV4_spec c {} W hF hW
  simp only [selRange_none, Nat.sub_zero] at wdb wcb wts wn wfreq
  generalize hlo : (selRange c.T p.dumps).1 = lo at *
  generalize hhi : (selRange c.T p.dumps).2 = hi at *
  generalize hclo : (selRange c.F p.channels).1 = clo at *
  generalize hchi : (selRange c.F p.channels).2 = chi at *
  have hPlen : P.ts.length = hi - lo := by rw [pts]; simp
  have hWlen : W.ts.length = c.T := by rw [wts]; simp
  have hd := keepPositions_shift c.T lo (hi - lo) σd kd (by omega) (by rw [← hPlen]; exact hkd)
  have hc := keepPositions_shift c.F clo (chi - clo) σc kc (by omega) (by rw [← pn]; exact hkc)
  obtain ⟨hkdlt, _⟩ := keepPositions_lt _ _ _ hkd
  obtain ⟨hkclt, _⟩ := keepPositions_lt _ _ _ hkc
  rw [hPlen] at hkdlt
  rw [pn] at hkclt
  simp only [Opened.observe, hkd, hkc, hWlen, wn, hd, hc, bind, Except.bind, pure, Except.pure]
  simp only [List.map_map]
  congr 2
  · apply List.map_congr_left
    intro i hi'
    have := hkdlt i hi'
    simp only [Function.comp, pts, wts]
    rw [getD_map_range' _ _ _ _ _ this, getD_map_range' _ _ _ _ _ (by omega), hsame]
    simp
  · apply List.map_congr_left
    intro k _
    simp only [Function.comp, pfreq, wfreq]
    simp
  · apply List.map_congr_left
    intro i hi'
    have := hkdlt i hi'
    simp only [Function.comp, pdb, wdb]
    rw [getD_range' _ _ _ _ this, getD_range' _ _ _ _ (by omega)]
    omega
  · apply List.map_congr_left
    intro k hk'
    have := hkclt k hk'
    simp only [Function.comp, pcb, wcb]
    rw [getD_range' _ _ _ _ this, getD_range' _ _ _ _ (by omega)]
    omega

theorem keepPositions_unit (n : Nat) (v : Option PreVal)
    (hv : ∀ x, v = some x → ∃ a b c, x = .slice a b c ∧ (c = none ∨ c = some 1)) :
    keepPositions n (toIx v) = .ok (List.range' (selRange n v).1 ((selRange n v).2 - (selRange n v).1)) := by
  cases v with
  | none => simp [toIx, keepPositions, selRange, List.range_eq_range']
  | some x =>
    obtain ⟨a, b, c, rfl, hc⟩ := hv x rfl
    obtain ⟨hpos, _, h2⟩ := unit_positions n a b c hc
    generalize hlo : (selRange n (some (PreVal.slice a b c))).1 = lo at *
    generalize hhi : (selRange n (some (PreVal.slice a b c))).2 = hi at *
    simp only [PreVal.positions] at hpos
    cases hsl : sliceList n a b c with
    | none => simp [hsl] at hpos
    | some l =>
      simp only [hsl] at hpos
      injection hpos with hpos
      simp only [toIx, keepPositions, Ix.resolve, hsl, hpos, bind, Except.bind, pure, Except.pure]
      by_cases hle : lo ≤ hi
      · have := filter_shift n lo (hi - lo) (List.range (hi - lo)) (by omega) (by intro k hk; simpa using hk)
        rw [List.range'_eq_map_range]
        rw [this]
        congr 2
        apply List.filter_eq_self.mpr
        intro a ha; simpa using ha
      · have : hi - lo = 0 := by omega
        simp [this]

theorem observe_congr (o : Opened) (σd σc σd' σc' : Option Ix)
    (hd : keepPositions o.ts.length σd = keepPositions o.ts.length σd')
    (hc : keepPositions o.spw.n σc = keepPositions o.spw.n σc') :
    o.observe σd σc = o.observe σd' σc' := by
  simp only [Opened.observe, hd, hc]

theorem keepPositions_range_shift (n lo m : Nat) (h : lo + m ≤ n) :
    keepPositions n (some (.list (((List.range m).map (lo + ·)).map Int.ofNat))) = .ok (List.range' lo m) := by
  rw [keepPositions_shift n lo m none (List.range m) h rfl, List.range'_eq_map_range]

/-- "open with preselect" shows what "open whole, then select the same ranges" shows -/
theorem observe_same_ranges (c : Cfg) (p : Preselect) (P W : Opened) (hF : 0 < c.F)
    (hP : openV4 c p = .ok P) (hW : openV4 c {} = .ok W) (hsame : P.timeOffset = W.timeOffset) :
    P.observe none none = W.observe (toIx p.dumps) (toIx p.channels) := by
  obtain ⟨hv, d1, d2, c1, c2, _, _, _, pts, _, _, pn, _, _, _⟩ := openV4_spec c p P hF hP
  obtain ⟨_, _, _, _, _, _, _, _, wts, _, _, wn, _, _, _⟩ := openV4_spec c {} W hF hW
  obtain ⟨_, vd, vc⟩ := validate_ok p hv
  have hPlen : P.ts.length = (selRange c.T p.dumps).2 - (selRange c.T p.dumps).1 := by rw [pts]; simp
  have hWlen : W.ts.length = c.T := by rw [wts]; simp [selRange_none]
  have hWn : W.spw.n = c.F := by rw [wn]; simp [selRange_none]
  rw [observe_shift c p P W hF hP hW hsame none none _ _ rfl rfl]
  apply observe_congr
  · rw [hWlen, keepPositions_unit c.T p.dumps vd, hPlen]
    exact keepPositions_range_shift _ _ _ (by omega)
  · rw [hWn, keepPositions_unit c.F p.channels vc, pn]
    exact keepPositions_range_shift _ _ _ (by omega)

end TimeFreqL
