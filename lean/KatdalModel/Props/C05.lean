import KatdalModel.Model.LazyIndexer
open Np Index LazyIx
namespace C05
theorem placeholder : (1 : Nat) = 1 := rfl
end C05
