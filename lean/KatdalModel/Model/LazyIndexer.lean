/-
  C05 model: katdal.lazy_indexer.LazyIndexer (HDF5-era, numpy/h5py sources) and
  katdal.concatdata.ConcatenatedLazyIndexer, mirroring the code's structure.
  Per-axis view: the model returns, per axis, the list of *source positions* read
  (or a scalar), which fully determines an outer-indexed result.
-/
import KatdalModel.Model.Index
open Np Index

namespace LazyIx

/-- `LazyIndexer.__init__`: first-stage index on one axis -> `_lookup` entry
    (`none` = whole axis kept).  An `int` is `np.atleast_1d`-ed, i.e. kept as a length-1 axis. -/
def mkLookup (n : Nat) : Ix → Except Err (Option (List Int))
  | .slice a b c =>
    match sliceIndices n a b c with
    | none => .error .value
    | some (s, e, st) =>
      if (s, e, st) = ((0 : Int), (n : Int), (1 : Int)) then .ok none
      else .ok (some (rangeList s e st))
  | .int i => .ok (some [i])
  | .mask m =>
    if m.length = n then (if m.all id then .ok none else .ok (some ((nonzero m).map Int.ofNat)))
    else .error .other            -- wrong-length mask: outside the property's grammar
  | .list l => .ok (some l)

/-- Second-stage index after mapping through the lookup. -/
inductive Mapped
  | scalar (v : Int)
  | slice (a b c : Option Int)
  | maskFull (m : List Bool)      -- boolean mask applied directly to the axis (no lookup)
  | arr (l : List Int)
  deriving Repr, DecidableEq

/-- numpy 1-D integer-array indexing `L[ix]` -/
def indexList (L : List Int) (ix : Ix) : Except Err Mapped :=
  match ix with
  | .int i => do let k ← normInt L.length i; let v ← getNat L k; pure (.scalar v)
  | .slice a b c =>
    match sliceList L.length a b c with
    | none => .error .value
    | some ps => do let vs ← ps.mapM (fun p => getNat L p.toNat); pure (.arr vs)
  | .mask m =>
    if m.length = L.length then do
      let vs ← (nonzero m).mapM (getNat L); pure (.arr vs)
    else .error .index
  | .list l => do
    let ks ← normList L.length l
    let vs ← ks.mapM (getNat L); pure (.arr vs)

def mapThrough (lookup : Option (List Int)) (ix : Ix) : Except Err Mapped :=
  match lookup with
  | none => match ix with
    | .int i => .ok (.scalar i)
    | .slice a b c => .ok (.slice a b c)
    | .mask m => .ok (.maskFull m)
    | .list l => .ok (.arr l)
  | some L => indexList L ix

/-- what `dataset[slice(s, e, st)]` reads on an axis of length `n` (numpy meaning) -/
def readSlice (n : Nat) (s e st : Int) : List Int :=
  match sliceList n (some s) (some e) (some st) with
  | none => []
  | some l => l

/-- contiguous runs of a list of ints: (first, one-past-last) pairs, mirroring
    `jumps = nonzero(diff > 1)`. -/
def runs : List Int → List (Int × Int)
  | [] => []
  | [a] => [(a, a + 1)]
  | a :: b :: t =>
    if b - a > 1 then (a, a + 1) :: runs (b :: t)
    else match runs (b :: t) with
      | [] => [(a, a + 1)]
      | (_, e) :: rest => (a, e) :: rest

/-- negative entries of an integer index list count from the end (`np.where(keep < 0, keep + n, keep)`) -/
def normNeg (n : Nat) (l : List Int) : List Int := l.map fun v => if v < 0 then v + n else v

/-- the two read strategies for a (normalised, in-bounds) non-empty integer index list -/
def axisSelectArr (n : Nat) (l : List Int) : Except Err Sel :=
  if ¬ strictInc l then .error .type else
  let segs := runs l
  if 5 * l.length > n ∧ segs.length > 1 then
    -- span-and-postselect strategy
    let first := (segs.head?.map (·.1)).getD 0
    let lastEnd := (segs.getLast?.map (·.2)).getD 0
    let chunk := readSlice n first lastEnd 1
    let post := l.map (· - l.headD 0)
    match post.mapM (fun p => do let k ← normInt chunk.length p; getNat chunk k) with
    | .error e => .error e
    | .ok vs => .ok (.many (vs.map Int.toNat))
  else
    -- one slice per contiguous segment
    let pieces := segs.map (fun (a, b) => (readSlice n a b 1, (b - a).toNat))
    if pieces.all (fun (rd, sz) => rd.length = sz) then
      .ok (.many ((pieces.flatMap (·.1)).map Int.toNat))
    else .error .value

/-- One axis of `LazyIndexer.__getitem__` after lookup mapping: returns the resolved
    selection of source positions, or the error raised. -/
def axisSelect (n : Nat) : Mapped → Except Err Sel
  | .scalar v => do let k ← normInt n v; pure (.one k)
  | .slice a b c =>
    match sliceIndices n a b c with
    | none => .error .value
    | some (s, e, st) =>
      let size := (rangeList s e st).length
      let rd := readSlice n s e st
      if rd.length = size then .ok (.many (rd.map Int.toNat)) else .error .value
  | .maskFull m =>
    if m.length = n then .ok (.many (nonzero m))
    else .error .other            -- wrong-length mask: outside the grammar
  | .arr [] => .ok (.many [])
  | .arr (a :: t) =>
    -- negative entries count from the end; entries that are still out of bounds are refused (IndexError);
    -- only then is the order of the entries checked (TypeError)
    let l := normNeg n (a :: t)
    if l.any (fun v => decide (v < 0 ∨ v ≥ (n : Int))) then .error .index else axisSelectArr n l

def getitem1 (n : Nat) (k1 k2 : Ix) : Except Err Sel := do
  let lk ← mkLookup n k1
  let m ← mapThrough lk k2
  axisSelect n m

def getitemAll : List Nat → List Ix → List Ix → Except Err (List Sel)
  | [], [], [] => .ok []
  | n :: ns, a :: as, b :: bs => do
    let s ← getitem1 n a b
    let r ← getitemAll ns as bs
    pure (s :: r)
  | _, _, _ => .error .index

/-- pad or truncate an index tuple to `ndim` entries (LazyIndexer semantics) -/
def padTrunc (ndim : Nat) (ix : List Ix) : List Ix :=
  (ix.take ndim) ++ List.replicate (ndim - (ix.take ndim).length) (.slice none none none)

/-- LazyIndexer(dataset, k1)[k2] -/
def getitem (shape : List Nat) (k1 k2 : List Ix) : Except Err (List Sel) :=
  getitemAll shape (padTrunc shape.length k1) (padTrunc shape.length k2)

/-- `_initial_shape` -/
def initialShape1 (n : Nat) (k1 : Ix) : Except Err Nat := do
  let lk ← mkLookup n k1
  pure (match lk with | none => n | some L => L.length)

def initialShape : List Nat → List Ix → Except Err (List Nat)
  | [], [] => .ok []
  | n :: ns, a :: as => do
    let s ← initialShape1 n a
    let r ← initialShape ns as
    pure (s :: r)
  | _, _ => .error .index

/-- the `shape` property's InvalidTransform test: `new_shape[:ndim]` must be a non-empty
    prefix of the initial shape -/
def validTransformShape (initial new : List Nat) : Bool :=
  (List.range initial.length).any fun k => new.take initial.length = initial.take (k + 1)

/-! The spec side: first-stage grammar and second-stage grammar G of the property. -/

/-- first-stage forms the property covers: slices with positive step, full-length masks,
    strictly increasing in-range non-negative lists -/
def stage1InG (n : Nat) : Ix → Bool
  | .slice _ _ c => decide (c.getD 1 > 0)
  | .mask m => decide (m.length = n)
  | .list l => strictInc l && l.all (fun v => decide (0 ≤ v ∧ v < n))
  | .int _ => false

/-- second-stage forms the property covers on an axis of (first-stage) length `n1` -/
def stage2InG (n1 : Nat) : Ix → Bool
  | .int i => decide (-(n1 : Int) ≤ i ∧ i < n1)
  | .slice _ _ c => decide (c.getD 1 > 0)
  | .mask m => decide (m.length = n1)
  | .list l => strictInc l && l.all (fun v => decide (0 ≤ v ∧ v < n1))

/-- spec: compose numpy's meaning of the two stages -/
def spec1 (n : Nat) (k1 k2 : Ix) : Except Err Sel := do
  let s1 ← k1.resolve n
  match s1 with
  | .one _ => .error .other
  | .many ks => do
    let s2 ← k2.resolve ks.length
    composeList ks s2

/-! ConcatenatedLazyIndexer: head-axis split over parts of lengths `lens`.
    The model returns the list of (part, local position) pairs in output order. -/

def partStarts (lens : List Nat) : List Nat :=
  (lens.foldl (fun (acc : List Nat × Nat) x => (acc.1 ++ [acc.2], acc.2 + x)) ([], 0)).1

/-- `indexer_starts.searchsorted(index, side='right') - 1` (as Int: may be -1) -/
def findIndexer (starts : List Nat) (g : Int) : Int :=
  (searchsortedRight (starts.map Int.ofNat) g : Int) - 1

/-- spec: global position -> (part, local position) -/
def locate : List Nat → Nat → Nat → Option (Nat × Nat)
  | [], _, _ => none
  | l :: t, p, g => if g < l then some (p, g) else locate t (p + 1) (g - l)

/-- Python's `a % b` on integers (the result takes the sign of the divisor) -/
def pyMod (a b : Int) : Int := if 0 < b then a.emod b else a.fmod b

/-- python list indexing `parts[ind]` with negative wrap -/
def pyListIdx (nparts : Nat) (ind : Int) : Except Err Nat :=
  normInt nparts ind

/-- run a per-part request on a part of length `len` (the part is itself a LazyIndexer
    whose head axis obeys the single-indexer rules proved in C05) -/
def runPart (lens : List Nat) (p : Nat) (ix : Ix) : Except Err (List (Nat × Nat)) := do
  let len ← getNat lens p
  let s ← getitem1 len (.slice none none none) ix
  match s with
  | .one k => pure [(p, k)]
  | .many ks => pure (ks.map fun k => (p, k))

def total (lens : List Nat) : Nat := lens.foldl (· + ·) 0

/-- integer-list head index, one part: the output slots owned by part `p` (those whose global index
    `find_indexer` sends to `p`) paired with what the part returns for their local indices -/
def listPart (lens : List Nat) (l : List Int) (p : Nat) : Except Err (List (Nat × Nat × Nat)) :=
  let starts := partStarts lens
  let inds := l.map (findIndexer starts)
  let slots := (List.range l.length).filter fun j => inds.getD j 0 = Int.ofNat p
  if slots.isEmpty then pure ([] : List (Nat × Nat × Nat))
  else do
    let locals := slots.map fun j => l.getD j 0 - ((starts.getD p 0 : Nat) : Int)
    let r ← runPart lens p (.list locals)
    if r.length = slots.length then pure (slots.zip r) else .error .value

/-- the content of output slot `j` (a slot left uninitialised by `np.empty` is garbage in the real code) -/
def pickSlot (all : List (Nat × Nat × Nat)) (j : Nat) : Except Err (Nat × Nat) :=
  match all.find? (·.1 = j) with
  | some (_, pr) => .ok pr
  | none => .error .other

/-- ConcatenatedLazyIndexer.__getitem__, head axis: scalar flag and list of (part, local). -/
def concatHead (lens : List Nat) (ix : Ix) : Except Err (Bool × List (Nat × Nat)) :=
  let starts := partStarts lens
  let tot := total lens
  let nparts := lens.length
  match ix with
  | .int i => do
    let g : Int := if i < 0 then tot + i else i
    let ind ← pyListIdx nparts (findIndexer starts g)
    let st : Int := ((starts.getD ind 0 : Nat) : Int)
    let r ← runPart lens ind (.int (g - st))
    pure (true, r)
  | .slice a b c =>
    match sliceIndices tot a b c with
    | none => .error .value
    | some (s, e0, st) =>
      -- `if stride > 0: stop = max(stop, start)`: an empty slice still visits the part of its start
      let e : Int := if st > 0 then max e0 s else e0
      let inds := rangeList (findIndexer starts s) (findIndexer starts e + 1) 1
      if inds.isEmpty then .error .value      -- np.concatenate([]) raises ValueError
      else do
        let chunks ← inds.mapM fun ind => do
          let p ← pyListIdx nparts ind
          let off : Int := ((starts.getD p 0 : Nat) : Int)
          let cs : Int := if s ≥ off then s - off else pyMod (s - off) st
          runPart lens p (.slice (some cs) (some (e - off)) (some st))
        pure (false, chunks.flatten)
  | .mask m =>
    if m.length = tot then do
      let rec go (ls : List Nat) (p : Nat) (m : List Bool) : Except Err (List (Nat × Nat)) :=
        match ls with
        | [] => .ok []
        | l :: t => do
          let c ← runPart lens p (.mask (m.take l))
          let r ← go t (p + 1) (m.drop l)
          pure (c ++ r)
      let r ← go lens 0 m
      pure (false, r)
    else .error .other
  | .list l => do
    -- negative entries are rejected (TypeError) before anything is read
    if l.any (· < 0) then throw Err.type
    -- integer list: scatter by owning part; every output slot must be filled
    let filled ← (List.range nparts).mapM (listPart lens l)
    let all := filled.flatten
    let out ← (List.range l.length).mapM (pickSlot all)
    pure (false, out)

/-- spec for the concatenated head axis -/
def concatSpec (lens : List Nat) (ix : Ix) : Except Err (Bool × List (Nat × Nat)) := do
  let s ← ix.resolve (total lens)
  match s with
  | .one g => match locate lens 0 g with
    | some pr => pure (true, [pr])
    | none => .error .index
  | .many gs => do
    let r ← gs.mapM fun g => match locate lens 0 g with
      | some pr => .ok pr
      | none => .error .index
    pure (false, r)

/-! ConcatenatedLazyIndexer, the whole request (head and tail axes).  The tail key is handed
    unchanged to every visited part; for slice and mask heads every chunk is reshaped to
    `(-1,) + shape_tails` before `np.concatenate`, for a list head the parts' answers are scattered
    into `np.empty(final_shape)`, a scalar head passes the key straight to its part.  Tail keys are
    modelled in resolved form as position lists (`Sel.many`); an integer on a tail axis is outside
    this model (the real reshape keeps it as an axis of length 1: recorded finding, covered by the
    differential run only). -/

/-- `len(indexer)` of every part -/
def partLens {α} (parts : List (NDArr α)) : List Nat := parts.map fun a => a.shape.headD 0

/-- the concatenation of `parts` along axis 0 as a functional array (the spec's source) -/
def concatArr {α} [Inhabited α] (parts : List (NDArr α)) (tailShape : List Nat) : NDArr α :=
  let lens := partLens parts
  { shape := total lens :: tailShape
    get := fun js => match js with
      | [] => default
      | g :: t => match locate lens 0 g with
        | some (p, k) => (parts.getD p ⟨[], fun _ => default⟩).get (k :: t)
        | none => default }

/-- result of the whole request: output row `j` is the row `(p, k) = pairs[j]` answered by part `p`
    with the tail key applied by that part -/
def concatFull {α} [Inhabited α] (parts : List (NDArr α)) (ix : Ix) (tails : List (List Nat)) :
    Except Err (NDArr α) := do
  let lens := partLens parts
  let tsel := tails.map Sel.many
  let (scalar, pairs) ← concatHead lens ix
  let part := fun (p : Nat) => parts.getD p ⟨[], fun _ => default⟩
  if scalar then
    let pr := pairs.headD (0, 0)
    pure (oindexSel (part pr.1) (.one pr.2 :: tsel))
  else
    -- `.reshape((-1,) + shape_tails)` of a chunk: ValueError as soon as one tail selection is empty
    let reshapes := match ix with | .slice _ _ _ => true | .mask _ => true | _ => false
    if reshapes && tails.any (·.isEmpty) then throw Err.value
    pure { shape := pairs.length :: selShape tsel
           get := fun js => match js with
             | [] => default
             | j :: t => let pr := pairs.getD j (0, 0); (part pr.1).get (pr.2 :: pickCoords tsel t) }

/-- spec: the same key applied to the concatenation under outer indexing -/
def concatFullSpec {α} [Inhabited α] (parts : List (NDArr α)) (tailShape : List Nat) (ix : Ix)
    (tails : List (List Nat)) : Except Err (NDArr α) := do
  let lens := partLens parts
  let s ← ix.resolve (total lens)
  pure (oindexSel (concatArr parts tailShape) (s :: tails.map Sel.many))

end LazyIx
