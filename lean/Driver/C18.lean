import Driver.Common
import KatdalModel.Model.Telstate
open Np Drv Telstate

/-! Line protocol of the C18 model driver.  Strings are restricted by the harness to
    `[A-Za-z0-9_.-]`; the empty string is written `^`.

    store  = entries joined by `|`, each `key~val` (`-` for the empty store)
    val    = `S:str` | `L:a,b` (list of strings, `L:` empty) | `N:int` | `C:<ci>`
    ci     = arrays joined by `+`, each `name@prefix@4x2x3@2.2/2/3`
    prefixes = `,`-joined

    vcs <fuel> <store> <prefixes> <cb> <stream>      -> prefixes | DIVERGE
    order <cb> <streams> <prefixes>                   -> specOrder
    get <store> <prefixes> <key>                      -> val | NONE
    shorten <prefixes> <key>                          -> string
    sensor <store> <prefixes> <mutable keys> <name>   -> val | NONE          (mirror of the sensor dict)
    l0 <fuel> <store> <query> <kwargs>                -> `<prefixes> <cb> <sn>` | E:…
         query = `k=v&k=v` | `-` ; kwargs likewise with value `~` for None and `^` for ''
    chunkinfo <fuel> <store> <prefixes> <cb> <sn> <0|1>   -> ci | E:…
    qual <fuel> <store> <prefixes> <cb> <sn> <s>      -> 0 | 1
    upci <ci> <improved ci>                           -> ci | E:…     (_upgrade_chunk_info)
    align <ci>                                        -> ci | E:…     (_align_chunk_info) -/

def toKey (s : String) : Key := if s = "^" then [] else s.toList
def ofKey (k : Key) : String := if k.isEmpty then "^" else String.ofList k

def parseKeys (s : String) : List Key := if s = "-" || s = "" then [] else (s.splitOn ",").map toKey
def showKeys (l : List Key) : String := if l.isEmpty then "-" else ",".intercalate (l.map ofKey)

def parseArr (s : String) : Option (Key × ArrInfo) :=
  match s.splitOn "@" with
  | [name, pre, shape, chunks] => do
    let shape ← if shape = "" then some [] else (shape.splitOn "x").mapM (·.toNat?)
    let chunks ← if chunks = "" then some [] else
      (chunks.splitOn "/").mapM fun d => if d = "" then some [] else (d.splitOn ".").mapM (·.toNat?)
    pure (toKey name, { prefix_ := toKey pre, shape, chunks })
  | _ => none

def parseCi (s : String) : Option ChunkInfo :=
  if s = "" then some [] else (s.splitOn "+").mapM parseArr

def showArr (kv : Key × ArrInfo) : String :=
  let sh := "x".intercalate (kv.2.shape.map toString)
  let ch := "/".intercalate (kv.2.chunks.map fun d => ".".intercalate (d.map toString))
  s!"{ofKey kv.1}@{ofKey kv.2.prefix_}@{sh}@{ch}"

def showCi (ci : ChunkInfo) : String := "+".intercalate (ci.map showArr)

def parseVal (s : String) : Option Val :=
  if s.startsWith "S:" then some (.str (toKey (s.drop 2).toString))
  else if s.startsWith "L:" then some (.strs (let r := (s.drop 2).toString; if r = "" then [] else (r.splitOn ",").map toKey))
  else if s.startsWith "N:" then ((s.drop 2).toString.toInt?).map Val.num
  else if s.startsWith "C:" then (parseCi (s.drop 2).toString).map Val.info
  else none

def showVal : Val → String
  | .str s => s!"S:{ofKey s}"
  | .strs l => "L:" ++ ",".intercalate (l.map ofKey)
  | .num n => s!"N:{n}"
  | .info ci => "C:" ++ showCi ci

def parseStore (s : String) : Option Store :=
  if s = "-" then some [] else
  (s.splitOn "|").mapM fun e =>
    match e.splitOn "~" with
    | [k, v] => (parseVal v).map fun v => (toKey k, v)
    | _ => none

def parseQuery (s : String) : Option (List (Key × Key)) :=
  if s = "-" then some [] else
  (s.splitOn "&").mapM fun e =>
    match e.splitOn "=" with
    | [k, v] => some (toKey k, toKey v)
    | _ => none

def parseKwargs (s : String) : Option (List (Key × KwVal)) :=
  if s = "-" then some [] else
  (s.splitOn "&").mapM fun e =>
    match e.splitOn "=" with
    | [k, v] => some (toKey k, if v = "~" then none else some (toKey v))
    | _ => none

def showOptVal : Option Val → String
  | none => "NONE"
  | some v => showVal v

def step (line : String) : String :=
  match line.splitOn " " with
  | ["vcs", fuel, store, pre, cb, s] =>
    match fuel.toNat?, parseStore store with
    | some f, some st =>
      match viewCaptureStream f st (parseKeys pre) (toKey cb) (toKey s) with
      | none => "DIVERGE"
      | some v => showKeys v
    | _, _ => "bad-op"
  | ["order", cb, streams, pre] => showKeys (specOrder (toKey cb) (parseKeys streams) (parseKeys pre))
  | ["get", store, pre, key] =>
    match parseStore store with
    | some st => showOptVal (get st (parseKeys pre) (toKey key))
    | none => "bad-op"
  | ["shorten", pre, key] => ofKey (shortenKey (parseKeys pre) (toKey key))
  | ["sensor", store, pre, keys, name] =>
    match parseStore store with
    | some st => showOptVal (sensorRead st (parseKeys pre) (parseKeys keys) (toKey name))
    | none => "bad-op"
  | ["l0", fuel, store, query, kwargs] =>
    match fuel.toNat?, parseStore store, parseQuery query, parseKwargs kwargs with
    | some f, some st, some q, some kw =>
      showExcept (fun (r : List Key × Key × Key) => s!"{showKeys r.1} {ofKey r.2.1} {ofKey r.2.2}")
        (fromUrlView f st q kw)
    | _, _, _, _ => "bad-op"
  | ["chunkinfo", fuel, store, pre, cb, sn, up] =>
    match fuel.toNat?, parseStore store with
    | some f, some st => showExcept showCi (sourceChunkInfo f st (parseKeys pre) (toKey cb) (toKey sn) (up = "1"))
    | _, _ => "bad-op"
  | ["qual", fuel, store, pre, cb, sn, s] =>
    match fuel.toNat?, parseStore store with
    | some f, some st => if qualifies f st (parseKeys pre) (toKey cb) (toKey sn) (toKey s) then "1" else "0"
    | _, _ => "bad-op"
  | ["upci", a, b] =>
    match parseCi (if a = "-" then "" else a), parseCi (if b = "-" then "" else b) with
    | some a, some b => showExcept showCi (upgradeChunkInfo a b)
    | _, _ => "bad-op"
  | ["align", a] =>
    match parseCi (if a = "-" then "" else a) with
    | some a => showExcept showCi (alignChunkInfo a)
    | none => "bad-op"
  | _ => "bad-op"

def main : IO Unit := Drv.loop step
