/-
  LazyIndexer second stage mapped through a first-stage lookup `L` equals the composition
  of numpy's meaning of the two stages, for every supported second-stage index form.
-/
import KatdalModel.Lemmas.Strict
open Np Index LazyIx

namespace LazyIx

theorem mapM_map_gen {α β γ} (g : α → β) (f : β → Except Err γ) :
    ∀ (l : List α), (l.map g).mapM f = l.mapM (fun x => f (g x)) := by
  intro l
  induction l with
  | nil => rfl
  | cons a t ih => rw [List.map_cons, List.mapM_cons, List.mapM_cons, ih]

theorem pairwise_toNat (ps : List Int) (hp : ps.Pairwise (· < ·)) (hn : ∀ x ∈ ps, 0 ≤ x) :
    (ps.map Int.toNat).Pairwise (· < ·) := by
  induction ps with
  | nil => exact List.Pairwise.nil
  | cons a t ih =>
    obtain ⟨h1, h2⟩ := List.pairwise_cons.mp hp
    simp only [List.map_cons]
    refine List.pairwise_cons.mpr ⟨?_, ih h2 (fun x hx => hn x (List.mem_cons_of_mem _ hx))⟩
    intro y hy
    simp only [List.mem_map] at hy
    obtain ⟨x, hx, rfl⟩ := hy
    have := h1 x hx
    have := hn a (List.mem_cons_self ..)
    have := hn x (List.mem_cons_of_mem _ hx)
    omega

/-- the shared "advanced" case: strictly increasing positions `ps` into the lookup `L` -/
theorem many_case (n : Nat) (L : List Int) (hL : L.Pairwise (· < ·)) (hb : ∀ x ∈ L, 0 ≤ x ∧ x < n)
    (ps : List Nat) (hp : ps.Pairwise (· < ·)) (hpb : ∀ p ∈ ps, p < L.length) :
    (do let vs ← ps.mapM (getNat L); axisSelect n (.arr vs)) =
    (do let vs ← ps.mapM (getNat (L.map Int.toNat)); pure (Sel.many vs) : Except Err Sel) := by
  obtain ⟨vs, h1, h2, h3, h4⟩ := pick_strict L hL ps hp hpb
  rw [h1, h4]
  simp only [bind, Except.bind, pure, Except.pure]
  cases vs with
  | nil => rfl
  | cons v vs' =>
    apply axisSelect_arr n (v :: vs') (by simp) ((strictInc_iff_pairwise _).mpr h2)
    intro x hx
    obtain ⟨q, _, hq⟩ := h3 x hx
    exact hb x (List.mem_of_getElem? hq)

theorem normList_nonneg (n : Nat) : ∀ (l : List Int), (∀ x ∈ l, 0 ≤ x ∧ x < n) →
    normList n l = .ok (l.map Int.toNat) := by
  intro l
  induction l with
  | nil => intro _; rfl
  | cons a t ih =>
    intro h
    have ha := h a (List.mem_cons_self ..)
    unfold normList
    have : normInt n a = .ok a.toNat := by unfold normInt; rw [if_pos ha]
    rw [this, ih (fun x hx => h x (List.mem_cons_of_mem _ hx))]
    rfl

/-- **Second stage through a lookup = composition of the two stages** (supported forms). -/
theorem second_stage_lookup (n : Nat) (L : List Int) (hL : L.Pairwise (· < ·))
    (hb : ∀ x ∈ L, 0 ≤ x ∧ x < n) (k2 : Ix) (hG : stage2InG L.length k2 = true) :
    (do let m ← mapThrough (some L) k2; axisSelect n m) =
    (do let s2 ← k2.resolve L.length; composeList (L.map Int.toNat) s2) := by
  cases k2 with
  | int i =>
    simp only [stage2InG, decide_eq_true_eq] at hG
    simp only [mapThrough, indexList, Ix.resolve]
    cases hk : normInt L.length i with
    | error e => simp [bind, Except.bind]
    | ok k =>
      have hkl : k < L.length := by
        unfold normInt at hk
        split at hk
        · simp only [Except.ok.injEq] at hk; omega
        · split at hk
          · simp only [Except.ok.injEq] at hk; omega
          · simp at hk
      have hkl' : k < (L.map Int.toNat).length := by simpa using hkl
      have hbk := hb L[k] (List.getElem_mem hkl)
      have hn : normInt n L[k] = .ok L[k].toNat := by unfold normInt; rw [if_pos hbk]
      simp [bind, Except.bind, pure, Except.pure, getNat_lt L k hkl, axisSelect, hn, composeList,
        getNat_lt _ k hkl']
  | slice a b c =>
    simp only [stage2InG, decide_eq_true_eq] at hG
    simp only [mapThrough, indexList, Ix.resolve]
    cases hs : sliceList L.length a b c with
    | none => simp [bind, Except.bind]
    | some ps =>
      obtain ⟨hpp, hpb⟩ := sliceList_pos_spec hs hG
      have hpn := pairwise_toNat ps hpp (fun x hx => (hpb x hx).1)
      have hpb' : ∀ p ∈ ps.map Int.toNat, p < L.length := by
        intro p hp
        simp only [List.mem_map] at hp
        obtain ⟨x, hx, rfl⟩ := hp
        have := hpb x hx; omega
      have key := many_case n L hL hb (ps.map Int.toNat) hpn hpb'
      rw [mapM_map_gen] at key
      simp only [bind, Except.bind, pure, Except.pure, composeList] at key ⊢
      cases h1 : ps.mapM (fun p => getNat L p.toNat) with
      | error e =>
        rw [h1] at key
        simp only at key ⊢
        cases h2 : (ps.map Int.toNat).mapM (getNat (L.map Int.toNat)) with
        | error e' => rw [h2] at key; simp at key ⊢; exact key
        | ok v => rw [h2] at key; simp at key
      | ok vs =>
        rw [h1] at key
        simp only at key ⊢
        rw [key]
  | mask m =>
    simp only [stage2InG, decide_eq_true_eq] at hG
    simp only [mapThrough, indexList, Ix.resolve, hG, if_true]
    obtain ⟨hpn, hpb⟩ := nonzero_spec m
    have key := many_case n L hL hb (nonzero m) hpn (by intro p hp; have := hpb p hp; omega)
    simp only [bind, Except.bind, pure, Except.pure, composeList] at key ⊢
    cases h1 : (nonzero m).mapM (getNat L) with
    | error e =>
      rw [h1] at key
      simp only at key ⊢
      cases h2 : (nonzero m).mapM (getNat (L.map Int.toNat)) with
      | error e' => rw [h2] at key; simp at key ⊢; exact key
      | ok v => rw [h2] at key; simp at key
    | ok vs =>
      rw [h1] at key
      simp only at key ⊢
      rw [key]
  | list l =>
    simp only [stage2InG, Bool.and_eq_true, List.all_eq_true, decide_eq_true_eq] at hG
    obtain ⟨hinc, hlb⟩ := hG
    simp only [mapThrough, indexList, Ix.resolve, normList_nonneg L.length l hlb]
    have hpp := (strictInc_iff_pairwise l).mp hinc
    have hpn := pairwise_toNat l hpp (fun x hx => (hlb x hx).1)
    have hpb' : ∀ p ∈ l.map Int.toNat, p < L.length := by
      intro p hp
      simp only [List.mem_map] at hp
      obtain ⟨x, hx, rfl⟩ := hp
      have := hlb x hx; omega
    have key := many_case n L hL hb (l.map Int.toNat) hpn hpb'
    simp only [bind, Except.bind, pure, Except.pure, composeList] at key ⊢
    cases h1 : (l.map Int.toNat).mapM (getNat L) with
    | error e =>
      rw [h1] at key
      simp only at key ⊢
      cases h2 : (l.map Int.toNat).mapM (getNat (L.map Int.toNat)) with
      | error e' => rw [h2] at key; simp at key ⊢; exact key
      | ok v => rw [h2] at key; simp at key
    | ok vs =>
      rw [h1] at key
      simp only at key ⊢
      rw [key]

end LazyIx
