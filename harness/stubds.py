"""A stub katdal DataSet with a generated observation structure (used by C02 / C03), plus the
translation of select() keyword arguments into the model driver's line protocol."""
import numbers

import katpoint
import numpy as np

from katdal.categorical import CategoricalData
from katdal.dataset import DEFAULT_VIRTUAL_SENSORS, DataSet, Subarray
from katdal.sensordata import SensorCache
from katdal.spectral_window import SpectralWindow

from harness import ixgen

STATES = ['slew', 'track', 'scan', 'stop']
LABELS = ['track', 'raster', 'calib']
TARGET_DESCR = ['Alpha, radec bpcal, 19:39:25.03, -63:42:45.6',
                'Beta | Bee, radec gaincal target, 04:08:20.38, -65:45:09.1',
                'Gamma, radec target, 05:00:00.0, -40:00:00.0',
                'Delta, azel, 10, 40']
T0 = 1600000000.0
PERIOD = 2.0
F0 = 1284e6
WIDTH = 2e6


def ant(i):
    return katpoint.Antenna(f'm{i:03d}, -30:42:39.8, 21:26:38.0, 1086.6, 13.5, {-8.264 + 30 * i} -207.29 8.5965')


class StubDataSet(DataSet):
    def __init__(self, T, F, n_ants, corrprods, scan_events, scan_states, cs_events, cs_labels,
                 tgt_events, tgt_indices, targets, sideband=1):
        super().__init__(name='stub', ref_ant='array')
        ants = [ant(i) for i in range(n_ants)]
        self.subarrays = [Subarray(ants, corrprods)]
        self.spectral_windows = [SpectralWindow(centre_freq=F0, channel_width=WIDTH, num_chans=F, sideband=sideband)]
        ts = T0 + PERIOD * np.arange(T)

        def const(v):
            return CategoricalData([v], [0, T])
        sensors = {'Observation/spw_index': const(0), 'Observation/subarray_index': const(0)}
        for a in ants:
            sensors[f'Antennas/{a.name}/antenna'] = const(a)
        sensors['Antennas/array/antenna'] = const(ants[0].array_reference_antenna())
        sensors['Observation/scan_state'] = CategoricalData(scan_states, scan_events)
        sensors['Observation/scan_index'] = CategoricalData(list(range(len(scan_states))), scan_events)
        sensors['Observation/label'] = CategoricalData(cs_labels, cs_events)
        sensors['Observation/compscan_index'] = CategoricalData(list(range(len(cs_labels))), cs_events)
        sensors['Observation/target'] = CategoricalData([targets[i] for i in tgt_indices], tgt_events)
        sensors['Observation/target_index'] = CategoricalData(list(tgt_indices), tgt_events)
        self._timestamps = ts
        self._time_keep = np.full(T, True, dtype=bool)
        self._freq_keep = np.full(F, True, dtype=bool)
        self._corrprod_keep = np.full(len(corrprods), True, dtype=bool)
        self.dump_period = PERIOD
        self.start_time = katpoint.Timestamp(ts[0] - 0.5 * PERIOD)
        self.end_time = katpoint.Timestamp(ts[-1] + 0.5 * PERIOD)
        self.sensor = SensorCache(sensors, ts, PERIOD, keep=self._time_keep, virtual=DEFAULT_VIRTUAL_SENSORS)
        self.catalogue.add(targets)
        self.catalogue.antenna = ants[0].array_reference_antenna()
        self.select(spw=0, subarray=0)

    @property
    def timestamps(self):
        return self._timestamps[self._time_keep]


def segmentation(rng, T, max_segments):
    k = rng.randint(1, min(max_segments, T))
    cuts = sorted(rng.sample(range(1, T), k - 1)) if k > 1 else []
    return [0] + cuts + [T]


def gen_observation(rng):
    """A random observation structure (plain data, JSON-able)."""
    # one observation in seven is long with many scans, so that scan / compscan indices pass 8 and 16
    # (orderings that only hold for small index sets show up there)
    long_obs = rng.random() < 0.15
    T = rng.randint(24, 40) if long_obs else rng.randint(2, 12)
    F = rng.randint(1, 8)
    n_ants = rng.randint(1, 3)
    pols = 'hv'
    cps = []
    for i in range(n_ants):
        for j in range(i, n_ants):
            for x in pols:
                for y in pols:
                    if i == j and x > y:
                        continue
                    cps.append((f'm{i:03d}{x}', f'm{j:03d}{y}'))
    rng.shuffle(cps)
    cps = cps[:rng.randint(1, len(cps))] if rng.random() < 0.3 else cps
    scan_events = segmentation(rng, T, 24 if long_obs else 6)
    scan_states = [rng.choice(STATES) for _ in scan_events[:-1]]
    # compscans: a coarser segmentation made of scan boundaries
    inner = scan_events[1:-1]
    keep = [e for e in inner if rng.random() < 0.5]
    cs_events = [0] + keep + [T]
    cs_labels = [rng.choice(LABELS) for _ in cs_events[:-1]]
    n_targets = rng.randint(1, len(TARGET_DESCR))
    keep = [e for e in inner if rng.random() < 0.5]
    tgt_events = [0] + keep + [T]
    tgt_indices = []
    for _ in tgt_events[:-1]:
        choices = [i for i in range(n_targets) if not tgt_indices or i != tgt_indices[-1]] or [0]
        tgt_indices.append(rng.choice(choices))
    return dict(T=T, F=F, n_ants=n_ants, corrprods=[list(c) for c in cps], scan_events=scan_events,
                scan_states=scan_states, cs_events=cs_events, cs_labels=cs_labels, tgt_events=tgt_events,
                tgt_indices=tgt_indices, n_targets=n_targets, sideband=rng.choice([1, 1, -1]))


def build(obs):
    targets = [katpoint.Target(d) for d in TARGET_DESCR[:obs['n_targets']]]
    d = StubDataSet(obs['T'], obs['F'], obs['n_ants'], [tuple(c) for c in obs['corrprods']], obs['scan_events'],
                    obs['scan_states'], obs['cs_events'], obs['cs_labels'], obs['tgt_events'],
                    obs['tgt_indices'], targets, sideband=obs.get('sideband', 1))
    return d, targets


def per_dump(events, values):
    out = []
    for (a, b), v in zip(zip(events[:-1], events[1:]), values):
        out += [v] * (b - a)
    return out


def all_tags(obs):
    tags = []
    for d in TARGET_DESCR[:obs['n_targets']]:
        for t in katpoint.Target(d).tags:
            if t not in tags:
                tags.append(t)
    return tags


def inp_id(inp):
    return f"{int(inp[1:4])}.{'hv'.index(inp[4])}"


def ctx_line(obs):
    T, F = obs['T'], obs['F']
    ts = [2 * i for i in range(T)]                 # half-dump units relative to T0
    tags = all_tags(obs)
    tgt_tags = [[tags.index(t) for t in katpoint.Target(d).tags] for d in TARGET_DESCR[:obs['n_targets']]]
    # half-channel units relative to F0; a lower-sideband window has its frequencies falling with channel index
    fr = [2 * obs.get('sideband', 1) * (k - F // 2) for k in range(F)]
    f = [str(T), str(F), str(len(obs['corrprods'])),
         ','.join(map(str, ts)), '1',
         ','.join(str(STATES.index(s)) for s in per_dump(obs['scan_events'], obs['scan_states'])),
         ','.join(map(str, per_dump(obs['scan_events'], range(len(obs['scan_states']))))),
         ','.join(str(LABELS.index(s)) for s in per_dump(obs['cs_events'], obs['cs_labels'])),
         ','.join(map(str, per_dump(obs['cs_events'], range(len(obs['cs_labels']))))),
         ','.join(map(str, per_dump(obs['tgt_events'], obs['tgt_indices']))),
         ';'.join(','.join(map(str, tt)) for tt in tgt_tags),
         ','.join(map(str, fr)), '1',
         ','.join(inp_id(a) for a, b in obs['corrprods']),
         ','.join(inp_id(b) for a, b in obs['corrprods'])]
    return 'ctx ' + '|'.join(f)


# ---------------------------------------------------------------- criteria: plain-data form -> python + protocol
# A criterion is (key, form, payload) with JSON-able payload; `to_python` builds the object given to
# select(), `to_proto` the model's text.

def name_id(table, name):
    return table.index(name) if name in table else 90 + (sum(map(ord, name)) % 9)


def scan_items_proto(items, table):
    out = []
    for it in items:
        if isinstance(it, int):
            out.append(f'i{it}')
        elif it.startswith('~'):
            out.append(f'x{name_id(table, it[1:])}')
        else:
            out.append(f'n{name_id(table, it)}')
    return ','.join(out)


def resolve_targets(d, items):
    """catalogue lookups exactly as the implementation's documentation describes (opaque oracle)"""
    idx = []
    for t in items:
        try:
            if isinstance(t, numbers.Integral):
                idx.append(int(t))
            elif isinstance(t, katpoint.Target) or (isinstance(t, str) and ',' in t):
                idx.append(d.catalogue.targets.index(t))
            else:
                found = d.catalogue._targets_with_name(t)
                if not found:
                    raise KeyError(t)
                for t2 in found:
                    idx.append(d.catalogue.targets.index(t2))
        except (KeyError, ValueError):
            continue
    return idx


def crit_to_python(crit, d, targets):
    key, form, p = crit
    if key in ('dumps', 'channels') or (key == 'corrprods' and form == 'index'):
        ix = tuple(p['ix']) if p['ix'][0] != 'm' and p['ix'][0] != 'l' else (p['ix'][0], p['ix'][1])
        return ixgen.to_py(ix, as_array=p.get('arr', False))
    if key == 'timerange':
        a, b = T0 + p['a'], T0 + p['b']
        return (katpoint.Timestamp(a), katpoint.Timestamp(b)) if p.get('ts') else (a, b)
    if key == 'freqrange':
        return (F0 + p['a'] * 1e6, F0 + p['b'] * 1e6)
    if key in ('scans', 'compscans', 'target_tags', 'inputs', 'pol'):
        items = p['items']
        if p.get('as') == 'str':
            return ','.join(str(i) for i in items)
        if p.get('as') == 'single':
            return items[0]
        return list(items)
    if key == 'targets':
        items = []
        for it in p['items']:
            if isinstance(it, dict):
                items.append(targets[it['obj']])
            else:
                items.append(it)
        return items[0] if p.get('as') == 'single' else items
    if key == 'corrprods':
        if form in ('auto', 'cross'):
            return form
        return [tuple(c) for c in p['pairs']] if not p.get('arr') else np.array(p['pairs'])
    if key == 'ants':
        items = []
        for it in p['items']:
            if isinstance(it, dict):
                items.append(ant(it['obj']))
            else:
                items.append(it)
        if p.get('as') == 'str':
            return ','.join(items)
        if p.get('as') == 'single':
            return items[0]
        return items
    raise ValueError(crit)


def crit_to_proto(crit, d, targets, obs):
    key, form, p = crit
    if key in ('dumps', 'channels') or (key == 'corrprods' and form == 'index'):
        return f'{key}={ixgen.enc_ix(tuple(p["ix"]))}'
    if key in ('timerange', 'freqrange'):
        return f'{key}={p["a"]},{p["b"]}'
    if key == 'scans':
        return 'scans=' + scan_items_proto(p['items'], STATES)
    if key == 'compscans':
        return 'compscans=' + scan_items_proto(p['items'], LABELS)
    if key == 'targets':
        items = [targets[it['obj']] if isinstance(it, dict) else it for it in p['items']]
        return 'targets=' + ','.join(map(str, resolve_targets(d, items)))
    if key == 'target_tags':
        tags = all_tags(obs)
        return 'target_tags=' + ','.join(str(name_id(tags, t)) for t in p['items'])
    if key == 'corrprods':
        if form in ('auto', 'cross'):
            return f'corrprods={form}'
        return 'corrprods=p:' + ','.join(f'{inp_id(a)}-{inp_id(b)}' for a, b in p['pairs'])
    if key == 'ants':
        out = []
        for it in p['items']:
            nm = f'm{it["obj"]:03d}' if isinstance(it, dict) else it
            if nm.startswith('~'):
                out.append('t' + str(ant_id(nm[1:])))
            else:
                out.append('n' + str(ant_id(nm)))
        return 'ants=' + ','.join(out)
    if key == 'inputs':
        return 'inputs=' + ','.join(inp_proto(i) for i in p['items'])
    if key == 'pol':
        return 'pol=' + ','.join(''.join({'h': '0', 'v': '1'}.get(c, '2') for c in it.lower()) for it in p['items'])
    raise ValueError(crit)


def ant_id(name):
    if len(name) == 4 and name[0] == 'm' and name[1:].isdigit():
        return int(name[1:])
    return 90 + (sum(map(ord, name)) % 9)


def inp_proto(inp):
    if len(inp) == 5 and inp[0] == 'm' and inp[1:4].isdigit() and inp[4] in 'hv':
        return inp_id(inp)
    return f'{90 + (sum(map(ord, inp)) % 9)}.0'


def masks_of(d):
    """API-level observation of the selection: dumps, channels, corr_products, shape."""
    T = len(d._timestamps)
    F = d.spectral_windows[d.spw].num_chans
    all_cp = [tuple(c) for c in d.subarrays[d.subarray].corr_products]
    t = ['0'] * T
    for i in d.dumps:
        t[int(i)] = '1'
    f = ['0'] * F
    for i in d.channels:
        f[int(i)] = '1'
    b = ['0'] * len(all_cp)
    for c in d.corr_products:
        b[all_cp.index(tuple(c))] = '1'
    return ''.join(t), ''.join(f), ''.join(b)
