/-
  C18 model: telstate views, capture-stream resolution, key shortening, URL/keyword merge,
  flag-stream upgrade and chunk-info alignment.

  Mirrors
    katsdptelstate.TelescopeState   view / prefixes / get / join   (assumption, validated by the harness
                                    against the real katsdptelstate on every case)
    katdal/datasources.py           view_capture_stream, view_l0_capture_stream, _shorten_key,
                                    _upgrade_chunk_info, _align_chunk_info, _upgrade_flags,
                                    TelstateDataSource.__init__ (sensor dict), from_url (kwargs merge)

  Keys are `List Char` (so that `++`, `isPrefixOf`, `drop` have library lemmas); the driver converts.
  Import-free apart from the Np layer.
-/
import KatdalModel.Np.Basic
open Np

namespace Telstate

abbrev Key := List Char

/-- `dtype`-free description of one stored array: which stream's chunks (prefix), shape, dask chunks -/
structure ArrInfo where
  prefix_ : Key
  shape : List Nat
  chunks : List (List Nat)
  deriving DecidableEq, Repr, Inhabited

/-- `chunk_info`: a dict (insertion ordered) from array name to info -/
abbrev ChunkInfo := List (Key × ArrInfo)

/-- the values the anchored code looks at -/
inductive Val
  | str (s : Key)
  | strs (l : List Key)
  | info (ci : ChunkInfo)
  | num (n : Int)
  deriving DecidableEq, Repr, Inhabited

/-- the backend: fully qualified key ↦ value -/
abbrev Store := List (Key × Val)

def Store.get (st : Store) (k : Key) : Option Val := st.lookup k

def sep : Char := '_'

/-- `TelescopeState.join` -/
def join (a b : Key) : Key := a ++ sep :: b

/-- the separator rule of `TelescopeState.view` -/
def addSep (name : Key) : Key :=
  if name ≠ [] ∧ name.getLast? ≠ some sep then name ++ [sep] else name

/-- `telstate.view(name)` / `telstate.view(name, exclusive=True)` on a prefix tuple -/
def view (prefixes : List Key) (name : Key) (exclusive : Bool := false) : List Key :=
  if exclusive then [addSep name] else addSep name :: prefixes

/-- `telstate.get(key)` / `telstate[key]`: the first prefix that defines the key wins -/
def get (st : Store) (prefixes : List Key) (k : Key) : Option Val :=
  prefixes.findSome? fun p => st.get (p ++ k)

/-- root telstate: `prefixes == ('',)` -/
def rootView : List Key := [[]]

/-! ## view_capture_stream -/

def kInherit : Key := "inherit".toList

/-- `telstate.view(stream, exclusive=True).get('inherit')` (a string-valued key) -/
def inheritOf (st : Store) (s : Key) : Option Key :=
  match get st (view [] s true) kInherit with
  | some (.str x) => some x
  | _ => none

/-- the `while True` loop collecting `[stream, inherit(stream), inherit(inherit(stream)), …]`;
    `none` = fuel exhausted (the Python loop does not terminate on a cyclic chain) -/
def chain : Nat → Store → Key → Option (List Key)
  | 0, _, _ => none
  | f + 1, st, s =>
    match inheritOf st s with
    | none => some [s]
    | some i => (chain f st i).map (s :: ·)

def viewCaptureStream (fuel : Nat) (st : Store) (prefixes : List Key) (cb s : Key) : Option (List Key) := do
  let streams ← chain fuel st s
  let rev := streams.reverse
  let v1 := rev.foldl (fun v x => view v x) prefixes
  let v2 := view v1 cb
  pure (rev.foldl (fun v x => view v (join cb x)) v2)

/-- documented order: capture block + stream, capture block + inherited streams, capture block,
    stream, inherited streams, then whatever was there before (global) -/
def specOrder (cb : Key) (streams : List Key) (base : List Key) : List Key :=
  streams.map (fun x => addSep (join cb x)) ++ addSep cb :: (streams.map addSep ++ base)

/-! ## view_l0_capture_stream -/

def kCbid : Key := "capture_block_id".toList
def kStream : Key := "stream_name".toList
def kType : Key := "stream_type".toList
def vVis : Key := "sdp.vis".toList
def vFlags : Key := "sdp.flags".toList

/-- `if not arg: arg = telstate[key]` (KeyError ⇒ ValueError) -/
def argOrDefault (st : Store) (prefixes : List Key) (arg : Option Key) (k : Key) : Except Err Key :=
  match arg with
  | some (c :: cs) => .ok (c :: cs)
  | _ =>
    match get st prefixes k with
    | some (.str x) => .ok x
    | _ => .error .value

def viewL0 (fuel : Nat) (st : Store) (prefixes : List Key) (cbArg snArg : Option Key) :
    Except Err (List Key × Key × Key) := do
  let cb ← argOrDefault st prefixes cbArg kCbid
  let sn ← argOrDefault st prefixes snArg kStream
  match viewCaptureStream fuel st prefixes cb sn with
  | none => .error .other                       -- does not terminate
  | some v =>
    -- `telstate.get('stream_type', 'unknown') != 'sdp.vis'`
    if get st v kType = some (.str vVis) then .ok (v, cb, sn) else .error .value

/-! ## from_url: query parameters merged with keyword arguments (`url_kwargs.update(kwargs)`) -/

/-- Python dict built from a list of pairs: the last occurrence wins -/
def dictGet {α} (d : List (Key × α)) (k : Key) : Option α := (d.reverse.lookup k)

/-- a keyword value: a string or `None` -/
abbrev KwVal := Option Key

/-- the merged dict as a lookup function: keywords take precedence over the URL query -/
def mergedGet (query : List (Key × Key)) (kwargs : List (Key × KwVal)) (k : Key) : Option KwVal :=
  match dictGet kwargs k with
  | some v => some v
  | none => (dictGet query k).map some

/-- capture block / stream arguments that reach `view_l0_capture_stream(telstate, **kwargs)` -/
def fromUrlView (fuel : Nat) (st : Store) (query : List (Key × Key)) (kwargs : List (Key × KwVal)) :
    Except Err (List Key × Key × Key) :=
  viewL0 fuel st rootView ((mergedGet query kwargs kCbid).join) ((mergedGet query kwargs kStream).join)

/-! ## _shorten_key and the sensor dict of TelstateDataSource -/

def shortenKey (prefixes : List Key) (key : Key) : Key :=
  match prefixes.find? (fun p => p.isPrefixOf key) with
  | some p => key.drop p.length
  | none => []

/-- `sensors[name] = TelstateSensorGetter(telstate, name)` over `telstate.keys()` restricted to mutable keys: every
    key that shortens to `name` registers the sensor under its SHORT name (since /repo fix for
    C18-sensor-last-sorted-key; before, the full key of the last such key in sorted order was kept) -/
def sensorKey (prefixes : List Key) (mutableKeys : List Key) (name : Key) : Option Key :=
  if name = [] then none
  else if (mutableKeys.any fun k => shortenKey prefixes k = name) then some name else none

/-- reading the sensor goes through the view with that name: the most specific namespace answers -/
def sensorRead (st : Store) (prefixes : List Key) (mutableKeys : List Key) (name : Key) : Option Val :=
  (sensorKey prefixes mutableKeys name).bind (get st prefixes)

/-! ## chunk info: upgrade and alignment -/

/-- `chunk_info[key] = value`: replace in place, or append a new key -/
def ciInsert : ChunkInfo → Key → ArrInfo → ChunkInfo
  | [], k, v => [(k, v)]
  | (a, b) :: t, k, v => if a = k then (k, v) :: t else (a, b) :: ciInsert t k v

/-- `_upgrade_chunk_info` -/
def upgradeChunkInfo (ci improved : ChunkInfo) : Except Err ChunkInfo :=
  improved.foldlM (fun ci kv =>
    let orig := (ci.lookup kv.1).getD kv.2
    if kv.2.shape.tail ≠ orig.shape.tail then .error .value else .ok (ciInsert ci kv.1 kv.2)) ci

/-- `_align_chunk_info` (`max()` of an empty dict raises ValueError) -/
def alignChunkInfo (ci : ChunkInfo) : Except Err ChunkInfo :=
  if ci.isEmpty then .error .value else
  let maxD := (ci.map fun kv => kv.2.shape.headD 0).foldl max 0
  .ok (ci.map fun kv =>
    let n := kv.2.shape.headD 0
    if n < maxD then
      (kv.1, { kv.2 with shape := maxD :: kv.2.shape.tail,
                         chunks := (kv.2.chunks.headD [] ++ List.replicate (maxD - n) 1) :: kv.2.chunks.tail })
    else kv)

def kArchived : Key := "sdp_archived_streams".toList
def kSrc : Key := "src_streams".toList
def kChunkInfo : Key := "chunk_info".toList

/-- one iteration of the loop in `_upgrade_flags` -/
def upgradeStep (fuel : Nat) (st : Store) (prefixes : List Key) (cb sn : Key) (ci : ChunkInfo) (s : Key) :
    Except Err ChunkInfo :=
  match viewCaptureStream fuel st prefixes cb s with
  | none => .error .other
  | some vs =>
    if get st vs kType ≠ some (.str vFlags) then .ok ci
    else
      match get st vs kSrc with
      | some (.strs src) =>
        if ¬ src.contains sn then .ok ci
        else
          match get st vs kChunkInfo with
          | some (.info fi) => upgradeChunkInfo ci fi
          | _ => .error .key
      | _ => .error .key

/-- `_upgrade_flags` -/
def upgradeFlags (fuel : Nat) (st : Store) (prefixes : List Key) (cb sn : Key) (ci : ChunkInfo) :
    Except Err ChunkInfo :=
  match get st prefixes kArchived with
  | some (.strs archived) => archived.foldlM (upgradeStep fuel st prefixes cb sn) ci
  | _ => .ok ci

/-- the chunk info `TelstateDataSource.__init__` ends up with -/
def sourceChunkInfo (fuel : Nat) (st : Store) (prefixes : List Key) (cb sn : Key) (upgrade : Bool) :
    Except Err ChunkInfo := do
  let ci ← match get st prefixes kChunkInfo with
    | some (.info ci) => pure ci
    | _ => .error .key
  let ci ← if upgrade then upgradeFlags fuel st prefixes cb sn ci else pure ci
  alignChunkInfo ci

/-- does archived stream `s` qualify as a replacement for the flags of stream `sn`? (spec) -/
def qualifies (fuel : Nat) (st : Store) (prefixes : List Key) (cb sn s : Key) : Bool :=
  match viewCaptureStream fuel st prefixes cb s with
  | none => false
  | some vs =>
    get st vs kType == some (.str vFlags) &&
    (match get st vs kSrc with | some (.strs src) => src.contains sn | _ => false)

end Telstate
