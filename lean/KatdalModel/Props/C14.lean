/-
  C14 — Calibration solutions become corrections by the documented interpolation rules.

  "Delay solutions become exp(-2*pi*i*delay*frequency) with missing delays treated as zero; bandpass
   solutions are inverted after magnitude- and phase-linear interpolation over frequency across invalid
   channels, without extrapolating beyond the outermost valid channels; gain solutions are inverted
   after magnitude- and phase-linear interpolation over time that reproduces every valid solution at
   its own dump to within rounding, holds the nearest valid solution before the first and after the
   last, ignores invalid solutions, is scaled by the inverse square root of the calibrator flux
   density when one is known and, for self-calibration products, only uses solutions derived on the
   same target.  Multi-part products are reassembled in channel order with absent parts marked
   invalid, and the product names a user may request ('all', 'default', a stream, a product type or
   stream.type) expand to the documented product lists, skipping or rejecting missing ones as
   documented."

  Model: KatdalModel/Model/ApplyCal.lean sections 3-5 (mirror of `_normalise_cal_products`,
  `indirect_cal_product`, `complex_interp`, `calc_delay_correction`, `calc_bandpass_correction`,
  `calibrate_flux`, `calc_gain_correction`).  Reals: any linearly ordered field `F` (exact
  arithmetic); complex scalars: any `CAlg S F` — |z|, arg z, polar form, exp(iθ), √, π, `mod` are
  opaque operations, so the theorems state the *structure* (which solution, which interpolation
  nodes, which argument) and hold whatever those functions are.
-/
import KatdalModel.Lemmas.ApplyCalGain
import KatdalModel.Lemmas.ApplyCalStitch
import KatdalModel.Lemmas.ApplyCalNames
import Mathlib.Tactic.Ring
import Mathlib.Algebra.Order.Field.Rat
open Np ApplyCal

set_option linter.unusedSectionVars false

namespace C14

/-! ### product names -/

/-- **c14_names** (general form) — `_normalise_cal_products` expands every requested name on its own
    (`expandName`: a name with a dot stands for itself, a stream for all its product types, a product
    type for that type on every stream, anything else is a `ValueError`) and concatenates; the
    skip-missing flag is "the request was 'all' / 'default' or some requested name has no dot". -/
theorem c14_names (r : Req) (streams : List String) :
    normaliseCalProducts r streams
      = ((selectionToList r streams Tables.defaultCalProducts).mapM (expandName streams)).map fun ls =>
          (ls.flatten,
            (match r with | .str s => s = "all" || s = "default" | .seq _ => false)
              || (selectionToList r streams Tables.defaultCalProducts).any (fun p => !hasDot p)) := by
  unfold normaliseCalProducts
  simp only [normaliseLoop_eq, List.nil_append]
  cases (selectionToList r streams Tables.defaultCalProducts).mapM (expandName streams) <;> rfl

/-- `'all'` = every product type of every stream, stream by stream; missing ones are skipped -/
theorem c14_names_all (streams : List String) (hnd : ∀ s ∈ streams, hasDot s = false) :
    normaliseCalProducts (.str "all") streams
      = .ok (streams.flatMap (fun s => Tables.calProductTypes.map (joinDot s)), true) := by
  rw [c14_names]
  have hsel : selectionToList (.str "all") streams Tables.defaultCalProducts = streams := by
    simp [selectionToList]
  rw [hsel, mapM_expand_streams streams streams (fun p hp => ⟨hnd p hp, hp⟩)]
  simp [Except.map, List.flatMap_def]

/-- `'default'` = `DEFAULT_CAL_PRODUCTS` verbatim (whatever streams exist); missing ones are skipped -/
theorem c14_names_default (streams : List String) :
    normaliseCalProducts (.str "default") streams = .ok (Tables.defaultCalProducts, true) := by
  rw [c14_names]
  have hsel : selectionToList (.str "default") streams Tables.defaultCalProducts = Tables.defaultCalProducts := by
    simp [selectionToList]
  have hd : ∀ p ∈ Tables.defaultCalProducts, hasDot p = true := by decide
  rw [hsel, mapM_expand_dotted streams _ hd]
  simp [Except.map, flatten_singletons]

/-- the empty string = no calibration, nothing to skip -/
theorem c14_names_empty (streams : List String) :
    normaliseCalProducts (.str "") streams = .ok ([], false) := by
  rw [c14_names]
  simp [selectionToList, Except.map, pure, Except.pure]

/-- a stream name = all product types of that stream (skip missing) -/
theorem c14_names_stream (streams : List String) (s : String) (hs : s ∈ streams) (hd : hasDot s = false) :
    normaliseCalProducts (.seq [s]) streams = .ok (Tables.calProductTypes.map (joinDot s), true) := by
  rw [c14_names]
  simp [selectionToList, expandName, hd, hs, Except.map, bind, Except.bind, pure, Except.pure]

/-- a product type = that type on every stream (skip missing) -/
theorem c14_names_type (streams : List String) (t : String) (ht : t ∈ Tables.calProductTypes)
    (hns : t ∉ streams) :
    normaliseCalProducts (.seq [t]) streams = .ok (streams.map (joinDot · t), true) := by
  have hd : hasDot t = false := by
    have : ∀ t ∈ Tables.calProductTypes, hasDot t = false := by decide
    exact this t ht
  rw [c14_names]
  simp [selectionToList, expandName, hd, hns, ht, Except.map, bind, Except.bind, pure, Except.pure]

/-- `stream.type` = itself; a missing one is rejected (no skipping) -/
theorem c14_names_qualified (streams : List String) (p : String) (hd : hasDot p = true) :
    normaliseCalProducts (.seq [p]) streams = .ok ([p], false) := by
  rw [c14_names]
  simp [selectionToList, expandName, hd, Except.map, bind, Except.bind, pure, Except.pure]

/-- anything else anywhere in the request ⇒ `ValueError` -/
theorem c14_names_unknown (streams : List String) (l : List String) (p : String) (hp : p ∈ l)
    (hd : hasDot p = false) (hs : p ∉ streams) (ht : p ∉ Tables.calProductTypes) :
    normaliseCalProducts (.seq l) streams = .error .value := by
  rw [c14_names]
  have : expandName streams p = .error .value := by simp [expandName, hd, hs, ht]
  have hsel : selectionToList (.seq l) streams Tables.defaultCalProducts = l := rfl
  rw [hsel, mapM_expand_error streams l ⟨p, hp, _, this⟩]
  rfl

example : normaliseCalProducts (.str " l2.GPHASE ,G") ["l1", "l2"] = .ok (["l2.GPHASE", "l1.G", "l2.G"], true) := by
  decide
example : normaliseCalProducts (.str "all") ["l1"]
    = .ok (["l1.K", "l1.B", "l1.G", "l1.GPHASE", "l1.GAMP_PHASE"], true) := by decide
example : normaliseCalProducts (.seq ["l1.G", "X"]) ["l1"] = .error .value := by decide

/-! ### skipping / rejecting missing products (`calc_correction`) -/

section missing
variable {S F : Type} [Sub F] [Neg F] [Zero F] [LT F] [DecidableLT F]

/-- **c14_missing_product** — a requested product for which some input has no correction sensor is
    skipped (the loop goes on as if it had not been requested) when `skip_missing_products` is set, and
    is a `KeyError` otherwise -/
theorem c14_missing_product (sensors : String → String → Option (List (List S))) (inputs : List String)
    (dataFreqs : List F) (allCalFreqs : String → Option (List F)) (atol : F) (name stream ty : String)
    (rest : List String) (acc : List (Product S)) (last : Option (List Nat))
    (hparse : parseCalProduct name = some (stream, ty)) (hmiss : fetchSensors sensors name inputs = none) :
    productLoop sensors inputs dataFreqs allCalFreqs atol true (name :: rest) acc last
      = productLoop sensors inputs dataFreqs allCalFreqs atol true rest acc last ∧
    productLoop sensors inputs dataFreqs allCalFreqs atol false (name :: rest) acc last = .error .key := by
  constructor
  · rw [productLoop]; simp [hparse, hmiss]
  · rw [productLoop]; simp [hparse, hmiss]

/-- a sensor is missing exactly when some input has none -/
theorem c14_missing_iff (sensors : String → String → Option (List (List S))) (name : String) :
    ∀ inputs : List String, fetchSensors sensors name inputs = none ↔ ∃ inp ∈ inputs, sensors name inp = none
  | [] => by simp [fetchSensors]
  | inp :: t => by
    have ih := c14_missing_iff sensors name t
    unfold fetchSensors
    cases hs : sensors name inp with
    | none => simp [hs]
    | some s =>
      cases hr : fetchSensors sensors name t with
      | none =>
        have := ih.mp hr
        simp only [hs, hr, Option.map_none, true_iff, List.mem_cons, exists_eq_or_imp]
        exact Or.inr this
      | some r =>
        have : ¬ ∃ inp ∈ t, sensors name inp = none := fun h => by
          have := ih.mpr h; rw [hr] at this; cases this
        simp only [Option.map_some, List.mem_cons, exists_eq_or_imp, hs]
        constructor
        · intro h; cases h
        · rintro (h | h)
          · cases h
          · exact absurd h this

end missing

/-! ### multi-part products -/

/-- **c14_stitch** — for parts whose timestamps are strictly increasing, the stitching loop terminates
    within `stitchFuel` iterations and either no part has any value (`KeyError`) or the output has
    strictly increasing timestamps, exactly the union of the parts' timestamps, and each value is the
    concatenation, in part order, of the parts' values at that timestamp with `INVALID_GAIN` blocks
    for the parts that have none there. -/
theorem c14_stitch {S F : Type} (A : CAlg S F) (parts : List (Part (List S))) (hs : ∀ p ∈ parts, PartSorted p) :
    ((∀ p ∈ parts, p = []) ∧ stitch A parts = .error .key) ∨
    ∃ out, stitch A parts = .ok out ∧ out ≠ [] ∧
      (out.map (·.1)).Pairwise (· < ·) ∧
      (∀ t, t ∈ out.map (·.1) ↔ HasTime parts t) ∧
      (∀ e ∈ out, e.2 = fillPieces A (parts.map (lookupTime e.1))) := by
  obtain ⟨evs, hloop, hsorted, hmem, hval⟩ := stitchLoop_spec (stitchFuel parts) parts hs (Nat.le_refl _)
  cases evs with
  | nil =>
    left
    constructor
    · intro p hp
      cases p with
      | nil => rfl
      | cons e tl =>
        have : HasTime parts e.1 := ⟨e :: tl, hp, e.2, List.mem_cons_self ..⟩
        have := (hmem e.1).mpr this
        simp at this
    · simp [stitch, hloop]
  | cons e0 rest =>
    right
    refine ⟨(e0 :: rest).map fun e => (e.1, fillPieces A e.2), by simp [stitch, hloop], by simp, ?_, ?_, ?_⟩
    · simpa [List.map_map, Function.comp_def] using hsorted
    · intro t
      rw [← hmem t]
      simp [List.map_map, Function.comp_def]
    · intro e he
      simp only [List.mem_map] at he
      obtain ⟨e', he', rfl⟩ := he
      simp only
      rw [hval e' he']

/-- **termination** of the `while True` loop: the fuel `stitchFuel` (number of stored values) suffices -/
theorem c14_stitch_terminates {V : Type} (parts : List (Part V)) (hs : ∀ p ∈ parts, PartSorted p) :
    (stitchLoop (stitchFuel parts) parts).isSome = true := by
  obtain ⟨evs, hloop, _⟩ := stitchLoop_spec (stitchFuel parts) parts hs (Nat.le_refl _)
  simp [hloop]

/-- absent parts become blocks of `INVALID_GAIN` of the size of the (equally sized) present parts -/
theorem c14_stitch_fill {S F : Type} (A : CAlg S F) (pieces : List (Option (List S))) (n : Nat)
    (hn : ∀ p ∈ pieces, ∀ v, p = some v → v.length = n) (hsome : ∃ p ∈ pieces, p.isSome = true) :
    fillPieces A pieces = (pieces.map fun p => p.getD (List.replicate n A.nan)).flatten := by
  show (pieces.map fun p => p.getD (List.replicate
    (((pieces.filterMap id).getLast?.map List.length).getD 0) A.nan)).flatten = _
  have hne : pieces.filterMap id ≠ [] := by
    obtain ⟨p, hp, hps⟩ := hsome
    cases p with
    | none => simp at hps
    | some v =>
      intro h
      have : v ∈ pieces.filterMap id := List.mem_filterMap.mpr ⟨some v, hp, rfl⟩
      rw [h] at this
      simp at this
  have hlast : (pieces.filterMap id).getLast? = some ((pieces.filterMap id).getLast hne) :=
    List.getLast?_eq_some_getLast hne
  have hmem := List.getLast_mem hne
  obtain ⟨p, hp, hpv⟩ := List.mem_filterMap.mp hmem
  have hlen : ((pieces.filterMap id).getLast hne).length = n := hn p hp _ (by simpa using hpv)
  have hn' : ((pieces.filterMap id).getLast?.map List.length).getD 0 = n := by
    rw [hlast, Option.map_some, Option.getD_some]
    exact hlen
  rw [hn']

def exParts : List (Part (List (Scalar Int))) :=
  [[(1, [.val 1]), (3, [.val 3])], [], [(2, [.val 20]), (3, [.val 30])]]

local instance : Inv Int := ⟨fun x => 1 / x⟩

example : ∀ p ∈ exParts, PartSorted p := by
  simp only [PartSorted]
  decide
example : stitch (F := Int) (Scalar.alg (K := Int) (F := Int)
    { star := id, normSq := fun x => x * x, abs := fun x => x, angle := fun _ => 0, polar := fun m _ => m,
      divReal := fun x r => x / r, cis := fun _ => 1 }) exParts
    = .ok [(1, [.val 1, .nan, .nan]), (2, [.nan, .nan, .val 20]), (3, [.val 3, .nan, .val 30])] := by
  decide

/-! ### gains -/

section gain
variable {S F : Type} [Field F] [LinearOrder F] [BEq F]

/-- **c14_gain_pointwise** — the per-target / per-channel loops of `calc_gain_correction` compute, at
    every dump `d` and channel `c`, the reciprocal of `specGain`: `complex_interp` at `d` through the
    valid solutions (finite and derived on the target of dump `d`) of channel `c`, or `INVALID_GAIN`
    when there is none. -/
theorem c14_gain_pointwise (A : CAlg S F) (R : ROps F) (segs : List (Nat × Option (List S))) (nDumps : Nat)
    (targets : Option (List Nat)) (e0 : Nat × List S) (rest : List (Nat × List S))
    (hevs : (segs.filterMap fun sg => sg.2.map fun g => (sg.1, g)) = e0 :: rest)
    (htg : (targets.getD (List.replicate nDumps 0)).length = nDumps) :
    gainCorrection A R segs nDumps targets
      = gtab nDumps e0.2.length fun d c =>
          A.inv (specGain A R (e0 :: rest) (targets.getD (List.replicate nDumps 0)) d c) :=
  gainCorrection_eq A R segs nDumps targets e0 rest hevs htg

/-- no solution at all (only the placeholder) ⇒ every dump invalid -/
theorem c14_gain_no_solutions (A : CAlg S F) (R : ROps F) (segs : List (Nat × Option (List S))) (nDumps : Nat)
    (targets : Option (List Nat)) (h : ∀ sg ∈ segs, sg.2 = none) :
    gainCorrection A R segs nDumps targets = List.replicate nDumps [A.inv A.nan] := by
  have : (segs.filterMap fun sg => sg.2.map fun g => (sg.1, g)) = [] := by
    rw [List.filterMap_eq_nil_iff]
    intro sg hsg
    simp [h sg hsg]
  simp [gainCorrection, this]

/-- solutions sit at strictly increasing dumps and dump indices become strictly increasing reals -/
def EventsSorted (evs : List (Nat × List S)) : Prop := evs.Pairwise (fun a b => a.1 < b.1)

theorem validPts_sorted (A : CAlg S F) (R : ROps F) (hmono : ∀ a b : Nat, a < b → R.ofNat a < R.ofNat b)
    (evs : List (Nat × List S)) (hs : EventsSorted evs) (tg : List Nat) (τ c : Nat) :
    SortedPts (validPts A R evs tg τ c) := by
  unfold SortedPts validPts
  apply List.Pairwise.filterMap _ _ hs
  intro a a' haa' b hb b' hb'
  dsimp only at hb hb'
  split at hb
  · split at hb'
    · simp only [Option.some.injEq] at hb hb'
      subst hb hb'
      exact hmono _ _ haa'
    · simp at hb'
  · simp at hb

/-- **c14_gain_exact_at_solution** — at the dump of a valid solution `g` (finite in channel `c`), the
    smoothed gain is `polar |g_c| φ` where `φ` is that solution's own unwrapped phase: magnitude and
    unwrapped phase are reproduced exactly (no contribution from any other solution). -/
theorem c14_gain_exact_at_solution (A : CAlg S F) (R : ROps F)
    (hmono : ∀ a b : Nat, a < b → R.ofNat a < R.ofNat b)
    (evs : List (Nat × List S)) (hs : EventsSorted evs) (tg : List Nat) (c : Nat)
    (e : Nat × List S) (he : e ∈ evs) (hfin : A.isFinite (e.2.getD c A.nan) = true) :
    ∃ k, ∃ hk : k < (validPts A R evs tg (tg.getD e.1 0) c).length,
      (validPts A R evs tg (tg.getD e.1 0) c)[k] = (R.ofNat e.1, e.2.getD c A.nan) ∧
      specGain A R evs tg e.1 c
        = A.polar (A.abs (e.2.getD c A.nan))
            ((phasesOf A R (validPts A R evs tg (tg.getD e.1 0) c))[k]'(by
              simpa [phasesOf, unwrap_length] using hk)) := by
  have hmem : (R.ofNat e.1, e.2.getD c A.nan) ∈ validPts A R evs tg (tg.getD e.1 0) c :=
    (mem_validPts A R evs tg _ c _ _).mpr ⟨e, he, hfin, rfl, rfl, rfl⟩
  obtain ⟨k, hk, hkv⟩ := List.mem_iff_getElem.mp hmem
  refine ⟨k, hk, hkv, ?_⟩
  have hne : (validPts A R evs tg (tg.getD e.1 0) c).isEmpty = false := by
    cases hv : validPts A R evs tg (tg.getD e.1 0) c with
    | nil => rw [hv] at hk; simp at hk
    | cons _ _ => rfl
  have hnode := complexInterp_node A R _ (validPts_sorted A R hmono evs hs tg (tg.getD e.1 0) c) k hk
  simp only [specGain, hne, Bool.false_eq_true, if_false]
  simp only [hkv] at hnode
  exact hnode

/-- **c14_gain_hold_ends (before)** — at a dump before the first valid solution on its target the
    smoothed gain is built from the first valid solution alone -/
theorem c14_gain_hold_before (A : CAlg S F) (R : ROps F) (evs : List (Nat × List S)) (tg : List Nat) (d c : Nat)
    (p0 : F × S) (t : List (F × S)) (hv : validPts A R evs tg (tg.getD d 0) c = p0 :: t)
    (hd : R.ofNat d < p0.1) :
    specGain A R evs tg d c
      = A.polar (A.abs p0.2) ((phasesOf A R (p0 :: t))[0]'(by simp [phasesOf, unwrap_length])) := by
  simp only [specGain, hv, List.isEmpty_cons, Bool.false_eq_true, if_false]
  exact complexInterp_before A R p0 t _ hd

/-- **c14_gain_hold_ends (after)** — at or after the last valid solution on its target the smoothed
    gain is built from the last valid solution alone -/
theorem c14_gain_hold_after (A : CAlg S F) (R : ROps F) (evs : List (Nat × List S)) (tg : List Nat) (d c : Nat)
    (hne : validPts A R evs tg (tg.getD d 0) c ≠ [])
    (hd : ∀ p ∈ validPts A R evs tg (tg.getD d 0) c, p.1 ≤ R.ofNat d) :
    ∃ φ, specGain A R evs tg d c
      = A.polar (A.abs ((validPts A R evs tg (tg.getD d 0) c).getLast hne).2) φ ∧
      (phasesOf A R (validPts A R evs tg (tg.getD d 0) c)).getLast? = some φ := by
  have hemp : (validPts A R evs tg (tg.getD d 0) c).isEmpty = false := by
    cases hv : validPts A R evs tg (tg.getD d 0) c with
    | nil => exact absurd hv hne
    | cons _ _ => rfl
  refine ⟨_, ?_, List.getLast?_eq_some_getLast ?_⟩
  · simp only [specGain, hemp, Bool.false_eq_true, if_false]
    exact complexInterp_after A R _ hne _ hd

/-- **c14_gain_ignores_invalid** — deleting the solutions that are invalid (not finite) in channel `c`
    from the history changes nothing in channel `c`, at any dump -/
theorem c14_gain_ignores_invalid (A : CAlg S F) (R : ROps F) (evs : List (Nat × List S)) (tg : List Nat)
    (d c : Nat) :
    specGain A R (evs.filter fun e => A.isFinite (e.2.getD c A.nan)) tg d c = specGain A R evs tg d c := by
  simp only [specGain, validPts_drop_invalid]

/-- **c14_selfcal_isolation** — two solution histories that agree on the solutions derived on the
    target of dump `d` give the same smoothed gain at `d`: solutions derived on other targets can be
    changed, added or removed without effect -/
theorem c14_selfcal_isolation (A : CAlg S F) (R : ROps F) (evs evs' : List (Nat × List S)) (tg : List Nat)
    (d c : Nat)
    (h : evs.filter (fun e => tg.getD e.1 0 == tg.getD d 0) = evs'.filter (fun e => tg.getD e.1 0 == tg.getD d 0)) :
    specGain A R evs tg d c = specGain A R evs' tg d c := by
  simp only [specGain, validPts_congr A R evs evs' tg (tg.getD d 0) c h]

/-! #### the same three facts for the complex value itself, under the two facts about the opaque
    functions that make "magnitude and unwrapped phase" determine the number:
    `np.mod(a, b)` differs from `a` by a whole multiple of `b`, and
    `|z|·exp(i(arg z + 2πn)) = z` for every finite `z` and integer `n`. -/

/-- `|z| · (cos + i sin)(arg z + 2πn) = z` -/
def PolarLaw (A : CAlg S F) (R : ROps F) : Prop :=
  ∀ (z : S) (n : ℤ), A.isFinite z = true → A.polar (A.abs z) (A.angle z + n * (R.pi + R.pi)) = z

/-- `np.mod(a, b) = a - n·b` for some integer `n` -/
def ModLaw (R : ROps F) : Prop := ∀ a b : F, ∃ n : ℤ, R.fmod a b = a - n * b

theorem phasesOf_turns [LawfulBEq F] (A : CAlg S F) (R : ROps F) (hmod : ModLaw R) (pts : List (F × S))
    (k : Nat) (hk : k < pts.length) :
    ∃ n : ℤ, (phasesOf A R pts)[k]'(by simp [phasesOf, unwrap_length, hk])
      = A.angle pts[k].2 + n * (R.pi + R.pi) := by
  obtain ⟨n, hn⟩ := unwrap_shift R hmod (pts.map fun p => A.angle p.2) k (by simpa using hk)
  exact ⟨n, by simpa [phasesOf] using hn⟩

/-- **reproduces every valid solution at its own dump** -/
theorem c14_gain_reproduces_solution [LawfulBEq F] (A : CAlg S F) (R : ROps F) (hmod : ModLaw R)
    (hpolar : PolarLaw A R) (hmono : ∀ a b : Nat, a < b → R.ofNat a < R.ofNat b)
    (evs : List (Nat × List S)) (hs : EventsSorted evs) (tg : List Nat) (c : Nat)
    (e : Nat × List S) (he : e ∈ evs) (hfin : A.isFinite (e.2.getD c A.nan) = true) :
    specGain A R evs tg e.1 c = e.2.getD c A.nan := by
  obtain ⟨k, hk, hkv, hspec⟩ := c14_gain_exact_at_solution A R hmono evs hs tg c e he hfin
  obtain ⟨n, hn⟩ := phasesOf_turns A R hmod _ k hk
  rw [hspec, hn, hkv]
  exact hpolar _ n hfin

/-- **holds the first valid solution before it** -/
theorem c14_gain_holds_first [LawfulBEq F] (A : CAlg S F) (R : ROps F) (hmod : ModLaw R)
    (hpolar : PolarLaw A R) (evs : List (Nat × List S)) (tg : List Nat) (d c : Nat)
    (p0 : F × S) (t : List (F × S)) (hv : validPts A R evs tg (tg.getD d 0) c = p0 :: t)
    (hd : R.ofNat d < p0.1) : specGain A R evs tg d c = p0.2 := by
  rw [c14_gain_hold_before A R evs tg d c p0 t hv hd]
  obtain ⟨n, hn⟩ := phasesOf_turns A R hmod (p0 :: t) 0 (by simp)
  rw [hn]
  have hmem : (p0.1, p0.2) ∈ validPts A R evs tg (tg.getD d 0) c := by rw [hv]; exact List.mem_cons_self ..
  obtain ⟨e, _, hfin, _, _, hz⟩ := (mem_validPts A R evs tg _ c _ _).mp hmem
  simp only [List.getElem_cons_zero]
  exact hpolar _ n (by rw [hz]; exact hfin)

theorem validPts_finite (A : CAlg S F) (R : ROps F) (evs : List (Nat × List S)) (tg : List Nat) (τ c : Nat) :
    ∀ p ∈ validPts A R evs tg τ c, A.isFinite p.2 = true := by
  intro p hp
  obtain ⟨e, _, hfin, _, _, hz⟩ := (mem_validPts A R evs tg τ c p.1 p.2).mp hp
  rw [hz]; exact hfin

theorem polar_last [LawfulBEq F] (A : CAlg S F) (R : ROps F) (hmod : ModLaw R) (hpolar : PolarLaw A R)
    (pts : List (F × S)) (hne : pts ≠ []) (hfin : ∀ p ∈ pts, A.isFinite p.2 = true) (φ : F)
    (hφ : (phasesOf A R pts).getLast? = some φ) :
    A.polar (A.abs (pts.getLast hne).2) φ = (pts.getLast hne).2 := by
  have hlen : 0 < pts.length := List.length_pos_iff.mpr hne
  have hl : (phasesOf A R pts).length = pts.length := by simp [phasesOf, unwrap_length]
  obtain ⟨n, hn⟩ := phasesOf_turns A R hmod pts (pts.length - 1) (by omega)
  rw [List.getLast?_eq_getElem?, hl, List.getElem?_eq_getElem (by rw [hl]; omega)] at hφ
  have hφ' := (Option.some.inj hφ).symm
  rw [hφ', hn, List.getLast_eq_getElem]
  exact hpolar _ n (hfin _ (List.getElem_mem _))

/-- **holds the last valid solution after it** -/
theorem c14_gain_holds_last [LawfulBEq F] (A : CAlg S F) (R : ROps F) (hmod : ModLaw R)
    (hpolar : PolarLaw A R) (evs : List (Nat × List S)) (tg : List Nat) (d c : Nat)
    (hne : validPts A R evs tg (tg.getD d 0) c ≠ [])
    (hd : ∀ p ∈ validPts A R evs tg (tg.getD d 0) c, p.1 ≤ R.ofNat d) :
    specGain A R evs tg d c = ((validPts A R evs tg (tg.getD d 0) c).getLast hne).2 := by
  obtain ⟨φ, hspec, hφ⟩ := c14_gain_hold_after A R evs tg d c hne hd
  rw [hspec]
  exact polar_last A R hmod hpolar _ hne (validPts_finite A R evs tg _ c) φ hφ

end gain

/-! non-vacuity of the gain hypotheses: an instance over ℚ in which `ModLaw`, `PolarLaw`, strict
    monotonicity of the dump index and `EventsSorted` all hold -/

def qOps : KOps ℚ ℚ :=
  { star := id, normSq := fun x => x * x, abs := id, angle := fun _ => 0, polar := fun m _ => m,
    divReal := fun x r => x / r, cis := fun _ => 1 }
def qA : CAlg (Scalar ℚ) ℚ := Scalar.alg qOps
def qR : ROps ℚ := { pi := 3, fmod := fun a _ => a, sqrt := id, ofNat := Nat.cast }

example : ModLaw qR := fun a b => ⟨0, by simp [qR]⟩
example : PolarLaw qA qR := by
  intro z n hz
  cases z with
  | nan => simp [qA, Scalar.alg, Scalar.isNan] at hz
  | val x => simp [qA, Scalar.alg, qOps]
example : ∀ a b : ℕ, a < b → qR.ofNat a < qR.ofNat b := fun _ _ h => Nat.cast_lt.mpr h
example : EventsSorted [(1, [Scalar.val (2 : ℚ)]), (4, [Scalar.nan]), (6, [Scalar.val 5])] := by
  simp [EventsSorted]
example : validPts qA qR [(1, [Scalar.val (2 : ℚ)]), (4, [Scalar.nan]), (6, [Scalar.val 5])] [0, 0, 0, 0, 1, 1, 0] 0 0
    = [(1, Scalar.val 2), (6, Scalar.val 5)] := by
  simp [validPts, qA, qR, Scalar.alg, Scalar.isNan]

/-! ### flux scale -/

section flux
variable {S F : Type} [Zero F] [LT F] [DecidableLT F]

/-- **c14_flux_scale** — each solution is divided by `√flux` of the first name among
    `[target.name] + target.aliases` (target at the solution's dump) whose flux is known and positive;
    otherwise (no such name, or the `INVALID_GAIN` placeholder, or an empty table) it is unchanged -/
theorem c14_flux_scale (A : CAlg S F) (R : ROps F) (segs : List (Nat × Option (List S)))
    (names : Nat → List String) (table : List (String × Option F)) :
    calibrateFlux A R segs names table = segs.map fun sg =>
      match sg.2, ((names sg.1).filterMap fun n =>
          (fluxOf table n).bind fun v => if 0 < v then some v else none).head? with
      | some g, some fl => (sg.1, some (g.map fun z => A.divReal z (R.sqrt fl)))
      | _, _ => sg := by
  unfold calibrateFlux
  by_cases hte : table.isEmpty = true
  · have ht : table = [] := List.isEmpty_iff.mp hte
    subst ht
    simp only [List.isEmpty_nil, if_true]
    conv => lhs; rw [← List.map_id segs]
    apply List.map_congr_left
    intro sg _
    have : ((names sg.1).filterMap fun n =>
        (fluxOf ([] : List (String × Option F)) n).bind fun v => if 0 < v then some v else none) = [] := by
      rw [List.filterMap_eq_nil_iff]
      intro n _
      simp [fluxOf]
    rw [this]
    cases sg.2 <;> rfl
  · simp only [hte, Bool.false_eq_true, if_false]
    apply List.map_congr_left
    intro sg _
    rw [← firstFlux_eq]
    cases sg.2 with
    | none => rfl
    | some g => cases firstFlux table (names sg.1) <;> rfl

/-- overrides take precedence over the pipeline's measured fluxes; `None` disables flux calibration -/
theorem c14_flux_table (measured o : List (String × Option F)) (n : String) :
    mergeFlux measured (none : Option (List (String × Option F))) = [] ∧
    fluxOf (mergeFlux measured (some o)) n = if o.any (·.1 == n) then fluxOf o n else fluxOf measured n :=
  ⟨rfl, fluxOf_append o measured n⟩

end flux

/-! ### bandpass -/

section bandpass
variable {S F : Type} [Field F] [LinearOrder F] [BEq F]

/-- **c14_bandpass_no_extrapolation** — with `pts` the valid (finite) channels of the solution, the
    correction at a data frequency below the first or above the last valid cal frequency is the
    reciprocal of `INVALID_GAIN`; inside it is the reciprocal of `complex_interp` through `pts`
    (magnitude and unwrapped phase each piecewise linear over frequency, invalid channels skipped). -/
theorem c14_bandpass_no_extrapolation (A : CAlg S F) (R : ROps F) (dataFreqs calFreqs : List F) (bp : List S)
    (k : Nat) (f : F) (hk : dataFreqs[k]? = some f) :
    let pts := (calFreqs.zip bp).filter fun p => A.isFinite p.2
    (outside f (pts.map (·.1)) = true → (bandpassCorrection A R dataFreqs calFreqs bp)[k]? = some (A.inv A.nan)) ∧
    (pts ≠ [] → (bandpassCorrection A R dataFreqs calFreqs bp)[k]?
        = some (A.inv (complexInterp A R .invalid pts f))) := by
  intro pts
  rw [bandpassCorrection_eq]
  simp only [List.getElem?_map, hk, Option.map_some]
  constructor
  · intro hout
    by_cases he : pts.isEmpty = true
    · simp only [pts] at he; simp [he]
    · simp only [pts] at he hout
      simp only [he, Bool.false_eq_true, if_false]
      rw [complexInterp_outside A R _ f hout]
  · intro hne
    have he : pts.isEmpty = false := by
      cases hp : pts with
      | nil => exact absurd hp hne
      | cons _ _ => rfl
    simp only [pts] at he
    simp only [he, Bool.false_eq_true, if_false]
    rfl

/-- exact at a valid cal channel that coincides with a data channel -/
theorem c14_bandpass_exact_at_channel (A : CAlg S F) (R : ROps F) (pts : List (F × S)) (hs : SortedPts pts)
    (k : Nat) (hk : k < pts.length) :
    complexInterp A R .invalid pts (pts[k].1)
      = if outside pts[k].1 (pts.map (·.1)) = true then A.nan
        else A.polar (A.abs pts[k].2) ((phasesOf A R pts)[k]'(by simp [phasesOf, unwrap_length, hk])) := by
  have hxs := sorted_fst pts hs
  have hlen : (phasesOf A R pts).length = (pts.map (·.1)).length := by simp [phasesOf, unwrap_length]
  have hm : interp pts[k].1 ((pts.map (·.1)).zip (pts.map fun p => A.abs p.2)) = some (A.abs pts[k].2) := by
    apply interp_node _ _ _ (sortedX_zip _ _ (by simp) hxs)
    rw [List.mem_iff_getElem]
    exact ⟨k, by simp [hk], by simp⟩
  have hp : interp pts[k].1 ((pts.map (·.1)).zip (phasesOf A R pts))
      = some ((phasesOf A R pts)[k]'(by simp [phasesOf, unwrap_length, hk])) := by
    apply interp_node _ _ _ (sortedX_zip _ _ hlen hxs)
    rw [List.mem_iff_getElem]
    exact ⟨k, by simp [hk, phasesOf, unwrap_length], by simp⟩
  rw [complexInterp_eq A R .invalid pts _ _ _ hm hp]
  simp

end bandpass

/-! ### delays -/

/-- **c14_delay_formula** — the correction at frequency `f` is `cis(-(2π)·d·f)` (i.e.
    `exp(-2πi·d·f)`, `cis` opaque), and a missing (NaN) delay is treated as zero -/
theorem c14_delay_formula {S F : Type} [Field F] (A : CAlg S F) (R : ROps F) (d : F) (freqs : List F) :
    delayCorrection A R (some d) freqs = freqs.map (fun f => A.cis (-(2 * R.pi * d * f))) ∧
    delayCorrection A R none freqs = delayCorrection A R (some 0) freqs := by
  constructor
  · unfold delayCorrection
    apply List.map_congr_left
    intro f _
    congr 1
    simp only [Option.getD_some]
    ring
  · rfl

end C14
