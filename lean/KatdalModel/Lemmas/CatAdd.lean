/-
  C11 lemmas, part 5: the effect of `add` on the per-dump list.
-/
import KatdalModel.Lemmas.CatWF
open Np

namespace Categorical

set_option linter.unusedSimpArgs false
set_option linter.unusedSectionVars false

variable {V : Type} [DecidableEq V]

theorem expandFrom_append {α : Type} (N : Nat) : ∀ (X : List (α × Nat)) (a : Nat) (cur y : α) (d : Nat) (Y : List (α × Nat)),
    expandFrom N a cur (X ++ (y, d) :: Y) = expandFrom d a cur X ++ expandFrom N d y Y := by
  intro X
  induction X with
  | nil => intro a cur y d Y; simp [expandFrom]
  | cons p t ih =>
    intro a cur y d Y
    obtain ⟨x, dx⟩ := p
    simp only [List.cons_append, expandFrom, ih, List.append_assoc]

/-- the per-dump list of indices, as written-out (index, start) pairs -/
theorem perDumpIdx_pairs (c : Cat V) (hlen : c.ev.length = c.idx.length + 1) :
    c.perDumpIdx = expandFrom c.numDumps 0 none (List.zip (c.idx.map some) c.ev.dropLast) := by
  cases hidx : c.idx with
  | nil =>
    cases hev : c.ev with
    | nil => rw [hev, hidx] at hlen; simp at hlen
    | cons n t =>
      have : t = [] := by rw [hev, hidx] at hlen; simpa using hlen
      subst this
      simp [Cat.perDumpIdx, hidx, hev, expand, expandFrom, Cat.numDumps, List.getLastD]
  | cons i0 is =>
    cases hev : c.ev with
    | nil => rw [hev, hidx] at hlen; simp at hlen
    | cons e0 et =>
      have hetl : et.length = is.length + 1 := by rw [hev, hidx] at hlen; simpa using hlen
      have hetne : et ≠ [] := by intro h0; rw [h0] at hetl; simp at hetl
      have hN : c.numDumps = et.getLast hetne := by
        simp only [Cat.numDumps, hev]
        cases et with
        | nil => exact absurd rfl hetne
        | cons b u =>
          rw [getLastD_cons_cons, List.getLastD_eq_getLast?, List.getLast?_eq_some_getLast (by simp)]
          rfl
      have het : et = et.dropLast ++ [c.numDumps] := by
        rw [hN]; exact (List.dropLast_concat_getLast hetne).symm
      have hdl : (e0 :: et).dropLast = e0 :: et.dropLast := by
        cases et with
        | nil => exact absurd rfl hetne
        | cons b u => simp [List.dropLast]
      simp only [Cat.perDumpIdx, hidx, hev, List.headD_cons, List.map_cons, hdl, List.zip_cons_cons, expandFrom,
        Nat.sub_zero]
      congr 1
      have := expand_eq_expandFrom c.numDumps (List.zip (is.map some) et.dropLast) e0 (some i0)
      rw [List.map_fst_zip (by simp; omega), List.map_snd_zip (by simp; omega)] at this
      rw [← this, ← het]

theorem expandFrom_length {α : Type} (N : Nat) : ∀ (Q : List (α × Nat)) (a : Nat) (cur : α),
    (a :: Q.map (·.2)).Pairwise (· ≤ ·) → (∀ q ∈ Q, q.2 ≤ N) → a ≤ N →
    (expandFrom N a cur Q).length = N - a := by
  intro Q
  induction Q with
  | nil => intro a cur _ _ _; simp [expandFrom]
  | cons p t ih =>
    intro a cur hs hN haN
    obtain ⟨y, d⟩ := p
    have hs' := List.pairwise_cons.mp hs
    have had : a ≤ d := hs'.1 d (by simp)
    have hdN : d ≤ N := hN (y, d) (List.mem_cons_self ..)
    simp only [expandFrom, List.length_append, List.length_replicate]
    rw [ih d y (by simpa using hs'.2) (fun q hq => hN q (List.mem_cons_of_mem _ hq)) hdN]
    omega

/-- first pair starting after `e` in a list sorted strictly by start -/
theorem filter_gt_head {α : Type} (e : Nat) : ∀ (Q : List (α × Nat)) (cur w : α) (d : Nat) (G : List (α × Nat)),
    (Q.map (·.2)).Pairwise (· < ·) → Q.filter (fun q => decide (e < q.2)) = (w, d) :: G →
    curAt cur Q d = w ∧ Q.filter (fun q => decide (d < q.2)) = G ∧ e < d := by
  intro Q
  induction Q with
  | nil => intro cur w d G _ h; simp at h
  | cons p t ih =>
    intro cur w d G hs h
    obtain ⟨y, dy⟩ := p
    have hs' := List.pairwise_cons.mp (by simpa using hs : (dy :: t.map (·.2)).Pairwise (· < ·))
    have hgt : ∀ q ∈ t, dy < q.2 := fun q hq => hs'.1 q.2 (List.mem_map_of_mem hq)
    by_cases hdy : e < dy
    · have hall : t.filter (fun q => decide (e < q.2)) = t :=
        filter_all _ t (fun q hq => by have := hgt q hq; simp only [decide_eq_true_eq]; omega)
      simp only [List.filter_cons, hdy, decide_true, if_true, hall, List.cons.injEq, Prod.mk.injEq] at h
      obtain ⟨⟨rfl, rfl⟩, rfl⟩ := h
      refine ⟨?_, ?_, hdy⟩
      · simp only [curAt, Nat.le_refl, if_true]
        exact curAt_of_gt y t dy hgt
      · have hn : ¬ dy < dy := Nat.lt_irrefl _
        simp only [List.filter_cons, hn, decide_false, Bool.false_eq_true, if_false]
        exact filter_all _ t (fun q hq => by have := hgt q hq; simpa using this)
    · simp only [List.filter_cons, hdy, decide_false, Bool.false_eq_true, if_false] at h
      obtain ⟨h1, h2, h3⟩ := ih y w d G hs'.2 h
      have hdyd : dy ≤ d := by omega
      have hn : ¬ d < dy := by omega
      refine ⟨by simp only [curAt, hdyd, if_true]; exact h1, ?_, h3⟩
      simp only [List.filter_cons, hn, decide_false, Bool.false_eq_true, if_false]
      exact h2

/-- **inserting / overriding a pair at start `e`** overrides the written-out list on `[e, nxt)`,
    `nxt` being the next start after `e` (or the end) -/
theorem insert_expand {α : Type} (N : Nat) (Q : List (α × Nat)) (hs : (Q.map (·.2)).Pairwise (· < ·))
    (hQN : ∀ q ∈ Q, q.2 < N) (cur v : α) (e : Nat) (he : e < N) :
    expandFrom N 0 cur (Q.filter (fun q => decide (q.2 < e)) ++ (v, e) :: Q.filter (fun q => decide (e < q.2))) =
      (expandFrom N 0 cur Q).take e ++
        List.replicate (((Q.filter (fun q => decide (e < q.2))).map (·.2)).headD N - e) v ++
        (expandFrom N 0 cur Q).drop (((Q.filter (fun q => decide (e < q.2))).map (·.2)).headD N) := by
  have hsle : (0 :: Q.map (·.2)).Pairwise (· ≤ ·) :=
    List.pairwise_cons.mpr ⟨fun _ _ => Nat.zero_le _, hs.imp (fun h => Nat.le_of_lt h)⟩
  rw [expandFrom_append]
  have htake := take_expandFrom N Q 0 cur e hsle (Nat.zero_le _) (Nat.le_of_lt he)
  simp only [Nat.sub_zero] at htake
  rw [← htake, List.append_assoc]
  congr 1
  cases hG : Q.filter (fun q => decide (e < q.2)) with
  | nil =>
    have hlen := expandFrom_length N Q 0 cur hsle (fun q hq => Nat.le_of_lt (hQN q hq)) (Nat.zero_le _)
    simp only [List.map_nil, List.headD_nil, expandFrom]
    rw [List.drop_of_length_le (by omega)]
    simp
  | cons p G =>
    obtain ⟨w, d⟩ := p
    obtain ⟨h1, h2, _⟩ := filter_gt_head e Q cur w d G hs hG
    have hdrop := drop_expandFrom N Q 0 cur d hsle (Nat.zero_le _)
    simp only [Nat.sub_zero] at hdrop
    simp only [List.map_cons, List.headD_cons, expandFrom]
    rw [hdrop, h1, h2]

/-! ### the positions used by `add` are those filters -/

theorem takeWhile_snoc_not {α : Type} (p : α → Bool) (n : α) (hn : p n = false) : ∀ (A : List α),
    ((A ++ [n]).takeWhile p).length = (A.takeWhile p).length := by
  intro A
  induction A with
  | nil => simp [List.takeWhile, hn]
  | cons a t ih =>
    simp only [List.cons_append, List.takeWhile_cons]
    split
    · simp [ih]
    · rfl

/-- in a list sorted strictly by start: the pairs before `e` are a prefix, the pairs after `e`
    the suffix that follows it (skipping a pair that starts exactly at `e`) -/
theorem sorted_take_drop {α : Type} (e : Nat) : ∀ (L : List (α × Nat)), (L.map (·.2)).Pairwise (· < ·) →
    let k := ((L.map (·.2)).takeWhile (fun x => decide (x < e))).length
    L.take k = L.filter (fun q => decide (q.2 < e)) ∧
    L.drop (if (L.map (·.2))[k]? = some e then k + 1 else k) = L.filter (fun q => decide (e < q.2)) := by
  intro L
  induction L with
  | nil => intro _; simp
  | cons p t ih =>
    intro hs
    obtain ⟨y, d⟩ := p
    have hs' := List.pairwise_cons.mp (by simpa using hs : (d :: t.map (·.2)).Pairwise (· < ·))
    have hgt : ∀ q ∈ t, d < q.2 := fun q hq => hs'.1 q.2 (List.mem_map_of_mem hq)
    by_cases hde : d < e
    · obtain ⟨ih1, ih2⟩ := ih hs'.2
      have hn : ¬ e < d := by omega
      simp only [List.map_cons, List.takeWhile_cons, hde, decide_true, if_true, List.length_cons, List.take_succ_cons,
        List.filter_cons, hn, decide_false, Bool.false_eq_true, if_false, List.getElem?_cons_succ]
      refine ⟨by rw [ih1], ?_⟩
      split
      · rename_i hh
        simp only [hh, if_true] at ih2
        simpa using ih2
      · rename_i hh
        simp only [hh, if_false] at ih2
        simpa using ih2
    · have hnone : t.filter (fun q => decide (q.2 < e)) = [] :=
        filter_none _ t (fun q hq => by have := hgt q hq; simp only [decide_eq_false_iff_not]; omega)
      simp only [List.map_cons, List.takeWhile_cons, hde, decide_false, Bool.false_eq_true, if_false, List.length_nil,
        List.take_zero, List.filter_cons, hnone, List.getElem?_cons_zero, Option.some.injEq]
      refine ⟨trivial, ?_⟩
      by_cases hed : d = e
      · subst hed
        have hn : ¬ d < d := Nat.lt_irrefl _
        simp only [if_true, hn, decide_false, Bool.false_eq_true, if_false, Nat.zero_add, List.drop_succ_cons,
          List.drop_zero]
        exact (filter_all _ t (fun q hq => by have := hgt q hq; simpa using this)).symm
      · have hlt : e < d := by omega
        simp only [hed, if_false, List.drop_zero, hlt, decide_true, if_true]
        congr 1
        exact (filter_all _ t (fun q hq => by have := hgt q hq; simp only [decide_eq_true_eq]; omega)).symm

theorem zip_take {α β : Type} : ∀ (a : List α) (b : List β) (k : Nat),
    (List.zip a b).take k = List.zip (a.take k) (b.take k) := by
  intro a
  induction a with
  | nil => intro b k; simp
  | cons x t ih =>
    intro b k
    cases b with
    | nil => simp
    | cons y u =>
      cases k with
      | zero => simp
      | succ k => simp [ih]

theorem zip_drop {α β : Type} : ∀ (a : List α) (b : List β) (k : Nat),
    (List.zip a b).drop k = List.zip (a.drop k) (b.drop k) := by
  intro a
  induction a with
  | nil => intro b k; simp
  | cons x t ih =>
    intro b k
    cases b with
    | nil => simp
    | cons y u =>
      cases k with
      | zero => simp
      | succ k => simp [ih]

theorem mem_expandFrom {α : Type} (N : Nat) : ∀ (Q : List (α × Nat)) (a : Nat) (cur x : α),
    x ∈ expandFrom N a cur Q → x = cur ∨ x ∈ Q.map (·.1) := by
  intro Q
  induction Q with
  | nil => intro a cur x h; simp only [expandFrom, List.mem_replicate] at h; exact Or.inl h.2
  | cons p t ih =>
    intro a cur x h
    obtain ⟨y, d⟩ := p
    simp only [expandFrom, List.mem_append, List.mem_replicate] at h
    rcases h with h | h
    · exact Or.inl h.2
    · rcases ih d y x h with rfl | h'
      · right; simp
      · right; simp only [List.map_cons, List.mem_cons]; exact Or.inr h'

theorem add_perDump_core (c : Cat V) (h : c.WF) (e : Nat) (v : V) (he : e < c.numDumps)
    (uniq' : List V) (vi : Nat) (hvi : uniq'[vi]? = some v) (hext : ∀ i, i < c.uniq.length → uniq'[i]? = c.uniq[i]?)
    (hvilt : vi < uniq'.length) (hextlen : c.uniq.length ≤ uniq'.length) (hnd : uniq'.Nodup)
    (x : Nat) (hx : getNat c.ev (c.ev.takeWhile (fun y => decide (y < e))).length = .ok x) :
    ({ uniq := uniq',
       idx := c.idx.take (c.ev.takeWhile (fun y => decide (y < e))).length ++ [vi] ++
         c.idx.drop (if x = e then (c.ev.takeWhile (fun y => decide (y < e))).length + 1
                     else (c.ev.takeWhile (fun y => decide (y < e))).length),
       ev := c.ev.take (c.ev.takeWhile (fun y => decide (y < e))).length ++ [e] ++
         c.ev.drop (if x = e then (c.ev.takeWhile (fun y => decide (y < e))).length + 1
                    else (c.ev.takeWhile (fun y => decide (y < e))).length) } : Cat V).perDump =
      c.perDump.take e ++
      List.replicate ((c.ev.filter (fun x => decide (e < x))).headD 0 - e) (some v) ++
      c.perDump.drop ((c.ev.filter (fun x => decide (e < x))).headD 0) := by
  obtain ⟨x', hx', hwfN⟩ := add_core c h e he uniq' vi hvilt hextlen hnd
  rw [hx] at hx'
  simp only [Except.ok.injEq] at hx'
  subst hx'
  obtain ⟨hwf', hN'⟩ := hwfN
  have hlen := h.2.1
  have hne : c.ev ≠ [] := by intro h0; rw [h0] at hlen; simp at hlen
  have hstrict := strictInc_pairwise _ h.1
  -- S = starts, Q = (index, start) pairs
  have hevS : c.ev = c.ev.dropLast ++ [c.numDumps] := by
    simp only [Cat.numDumps]
    rw [List.getLastD_eq_getLast?, List.getLast?_eq_some_getLast hne]
    exact (List.dropLast_concat_getLast hne).symm
  obtain ⟨S, hS⟩ : ∃ S, S = c.ev.dropLast := ⟨_, rfl⟩
  rw [← hS] at hevS
  have hSlen : S.length = c.idx.length := by rw [hS]; simp; omega
  have hSstrict : S.Pairwise (· < ·) := by
    rw [hevS] at hstrict; exact (List.pairwise_append.mp hstrict).1
  have hSN : ∀ x ∈ S, x < c.numDumps := by
    intro x hx; rw [hevS] at hstrict
    exact (List.pairwise_append.mp hstrict).2.2 x hx _ (by simp)
  obtain ⟨Q, hQ⟩ : ∃ Q, Q = List.zip (c.idx.map some) S := ⟨_, rfl⟩
  have hQsnd : Q.map (·.2) = S := by rw [hQ, List.map_snd_zip (by simp; omega)]
  have hQfst : Q.map (·.1) = c.idx.map some := by rw [hQ, List.map_fst_zip (by simp; omega)]
  have hQs : (Q.map (·.2)).Pairwise (· < ·) := by rw [hQsnd]; exact hSstrict
  have hQN : ∀ q ∈ Q, q.2 < c.numDumps := fun q hq => hSN q.2 (by rw [← hQsnd]; exact List.mem_map_of_mem hq)
  have hXF : c.perDumpIdx = expandFrom c.numDumps 0 none Q := by
    rw [perDumpIdx_pairs c hlen, hQ, hS]
  -- positions
  obtain ⟨k, hk⟩ : ∃ k, k = (S.takeWhile (fun x => decide (x < e))).length := ⟨_, rfl⟩
  have hnN : (fun x => decide (x < e)) c.numDumps = false := by simp; omega
  have hei : (c.ev.takeWhile (fun x => decide (x < e))).length = k := by
    rw [hevS, takeWhile_snoc_not (fun x => decide (x < e)) c.numDumps hnN S, hk]
  have hkS : k ≤ S.length := by
    rw [hk]; exact (List.takeWhile_sublist _).length_le
  rw [hei] at hx hwf' hN' ⊢
  · -- the condition `x = e` in terms of S
    have hxS : (x = e) ↔ (S[k]? = some e) := by
      simp only [getNat] at hx
      rw [hevS] at hx
      by_cases hkl : k < S.length
      · rw [List.getElem?_append_left hkl] at hx
        rw [List.getElem?_eq_getElem hkl] at hx ⊢
        simp only [Except.ok.injEq, Option.some.injEq] at hx ⊢
        rw [hx]
      · have hkeq : k = S.length := by omega
        rw [List.getElem?_append_right (by omega), hkeq] at hx
        simp only [Nat.sub_self, List.getElem?_cons_zero, Except.ok.injEq] at hx
        rw [List.getElem?_eq_none (by omega)]
        constructor
        · intro hh; omega
        · intro hh; simp at hh
    obtain ⟨after, hafter⟩ : ∃ a, a = (if x = e then k + 1 else k) := ⟨_, rfl⟩
    have hafterS : after = (if (Q.map (·.2))[k]? = some e then k + 1 else k) := by
      rw [hafter, hQsnd]
      by_cases hxe : x = e
      · simp [hxe, hxS.mp hxe]
      · have : ¬ S[k]? = some e := fun hh => hxe (hxS.mpr hh)
        simp [hxe, this]
    have hafterle : after ≤ S.length := by
      rw [hafter]
      split
      · rename_i hxe
        have := hxS.mp hxe
        by_cases hkl : k < S.length
        · omega
        · rw [List.getElem?_eq_none (by omega)] at this; simp at this
      · exact hkS
    rw [← hafter] at hwf' hN' ⊢
    -- pairs of the result
    have hev' : (c.ev.take k ++ [e] ++ c.ev.drop after).dropLast = S.take k ++ [e] ++ S.drop after := by
      rw [hevS, List.take_append_of_le_length hkS, List.drop_append_of_le_length hafterle]
      rw [← List.append_assoc, List.dropLast_concat]
    have hQ' : List.zip ((c.idx.take k ++ [vi] ++ c.idx.drop after).map some) (S.take k ++ [e] ++ S.drop after) =
        Q.filter (fun q => decide (q.2 < e)) ++ (some vi, e) :: Q.filter (fun q => decide (e < q.2)) := by
      obtain ⟨t1, t2⟩ := sorted_take_drop e Q hQs
      rw [hQsnd, ← hk] at t1 t2
      rw [← hQsnd] at t2
      rw [← hafterS] at t2
      rw [← t1, ← t2, hQ, zip_take, zip_drop]
      simp only [List.map_append, List.map_take, List.map_drop, List.map_cons, List.map_nil, List.append_assoc]
      rw [List.zip_append (by simp; omega)]
      simp
    have hpd' : ({ uniq := uniq', idx := c.idx.take k ++ [vi] ++ c.idx.drop after,
                   ev := c.ev.take k ++ [e] ++ c.ev.drop after } : Cat V).perDumpIdx =
        expandFrom c.numDumps 0 none
          (Q.filter (fun q => decide (q.2 < e)) ++ (some vi, e) :: Q.filter (fun q => decide (e < q.2))) := by
      rw [perDumpIdx_pairs _ hwf'.2.1, hN']
      simp only
      rw [hev', hQ']
    rw [perDump_eq_idx, hpd', insert_expand c.numDumps Q hQs hQN none (some vi) e he]
    rw [perDump_eq_idx c, hXF]
    -- the next boundary
    have hnxt : ((Q.filter (fun q => decide (e < q.2))).map (·.2)).headD c.numDumps =
        (c.ev.filter (fun x => decide (e < x))).headD 0 := by
      have h1 : (Q.filter (fun q => decide (e < q.2))).map (·.2) = S.filter (fun x => decide (e < x)) := by
        rw [← hQsnd, List.filter_map]
        rfl
      have hNgt : decide (e < c.numDumps) = true := by simpa using he
      rw [h1, hevS, List.filter_append]
      simp only [List.filter_cons, hNgt, if_true, List.filter_nil]
      cases S.filter (fun x => decide (e < x)) <;> simp
    rw [hnxt]
    -- values: old indices keep their value under the (possibly extended) unique values
    have hval : ∀ o ∈ expandFrom c.numDumps 0 none Q,
        (o.bind fun i => uniq'[i]?) = (o.bind fun i => c.uniq[i]?) := by
      intro o ho
      rcases mem_expandFrom _ Q 0 none o ho with rfl | hm
      · rfl
      · rw [hQfst] at hm
        simp only [List.mem_map] at hm
        obtain ⟨i, hi, rfl⟩ := hm
        simp only [Option.bind_some]
        exact hext i (h.2.2.1 i hi)
    simp only [List.map_append, List.map_replicate, List.map_take, List.map_drop, Option.bind_some, hvi]
    rw [List.map_congr_left hval]

/-- **add(event, value) overrides the per-dump list on `[event, next boundary)`** and leaves every
    other dump unchanged, for every well-formed series, every event inside the series and every
    value (already known or new). -/
theorem add_perDump (c : Cat V) (h : c.WF) (e : Nat) (v : V) (he : e < c.numDumps) (c' : Cat V)
    (hadd : c.add e (some v) = .ok c') :
    c'.perDump = c.perDump.take e ++
      List.replicate ((c.ev.filter (fun x => decide (e < x))).headD 0 - e) (some v) ++
      c.perDump.drop ((c.ev.filter (fun x => decide (e < x))).headD 0) := by
  simp only [Cat.add] at hadd
  cases hio : indexOf? c.uniq v with
  | some i =>
    obtain ⟨hi1, hiv⟩ := indexOf?_some c.uniq v i hio
    simp only [hio, bind, Except.bind, pure, Except.pure] at hadd
    cases hx : getNat c.ev (c.ev.takeWhile (fun y => decide (y < e))).length with
    | error err => simp [hx] at hadd
    | ok x =>
      simp only [hx, Except.ok.injEq] at hadd
      subst hadd
      exact add_perDump_core c h e v he c.uniq i hiv (fun _ _ => rfl) hi1 (Nat.le_refl _) h.2.2.2 x hx
  | none =>
    have hnm := indexOf?_none c.uniq v hio
    have hnd : (c.uniq ++ [v]).Nodup := by
      rw [List.nodup_append]
      refine ⟨h.2.2.2, by simp, ?_⟩
      intro a ha b hb
      simp only [List.mem_singleton] at hb
      subst hb
      intro hab; subst hab; exact hnm ha
    simp only [hio, bind, Except.bind, pure, Except.pure] at hadd
    cases hx : getNat c.ev (c.ev.takeWhile (fun y => decide (y < e))).length with
    | error err => simp [hx] at hadd
    | ok x =>
      simp only [hx, Except.ok.injEq] at hadd
      subst hadd
      exact add_perDump_core c h e v he (c.uniq ++ [v]) c.uniq.length (by simp)
        (fun i hi => List.getElem?_append_left hi) (by simp) (by simp) hnd x hx

/-! ### add(event) without a value duplicates the current value: nothing changes -/

theorem takeWhile_congr_mem {α : Type} (p q : α → Bool) : ∀ (l : List α), (∀ x ∈ l, p x = q x) →
    l.takeWhile p = l.takeWhile q := by
  intro l
  induction l with
  | nil => intro _; rfl
  | cons a t ih =>
    intro h
    simp only [List.takeWhile_cons, h a (List.mem_cons_self ..)]
    rw [ih (fun x hx => h x (List.mem_cons_of_mem _ hx))]

theorem splice_same {α : Type} (l : List α) (x : α) (e n : Nat) (hen : e ≤ n) (hn : n ≤ l.length)
    (h : ∀ d, e ≤ d → d < n → l[d]? = some x) :
    l.take e ++ List.replicate (n - e) x ++ l.drop n = l := by
  apply List.ext_getElem?
  intro d
  by_cases h1 : d < e
  · rw [List.append_assoc, List.getElem?_append_left (by simp; omega), List.getElem?_take_of_lt h1]
  · by_cases h2 : d < n
    · rw [List.append_assoc, List.getElem?_append_right (by simp; omega)]
      rw [List.getElem?_append_left (by simp; omega)]
      rw [List.getElem?_replicate]
      have : d - (l.take e).length < n - e := by simp; omega
      simp only [this, if_true]
      exact (h d (by omega) h2).symm
    · rw [List.getElem?_append_right (by simp; omega)]
      simp only [List.length_append, List.length_take, List.length_replicate, List.getElem?_drop]
      congr 1
      omega

theorem add_none_perDump (c : Cat V) (h : c.WF) (e : Nat) (c' : Cat V) (hadd : c.add e none = .ok c') :
    c'.perDump = c.perDump := by
  simp only [Cat.add] at hadd
  cases hl : c.lookup1 (e : Int) with
  | error err => simp [hl, bind, Except.bind] at hadd
  | ok i =>
    have he : e < c.numDumps := lookup1_lt_numDumps c h e i hl
    have hi1 : i < c.uniq.length := h.2.2.1 i (lookup1_mem c _ i hl)
    simp only [hl, bind, Except.bind, pure, Except.pure] at hadd
    cases hx : getNat c.ev (c.ev.takeWhile (fun y => decide (y < e))).length with
    | error err => simp [hx] at hadd
    | ok x =>
      simp only [hx, Except.ok.injEq] at hadd
      subst hadd
      have hcore := add_perDump_core c h e (c.uniq[i]'hi1) he c.uniq i (List.getElem?_eq_getElem hi1)
        (fun _ _ => rfl) hi1 (Nat.le_refl _) h.2.2.2 x hx
      rw [hcore]
      -- the dumps from `e` to the next boundary already carry that value
      have hne : c.ev ≠ [] := by intro h0; have := h.2.1; rw [h0] at this; simp at this
      have hstrict := strictInc_pairwise _ h.1
      have hNmem : c.numDumps ∈ c.ev := by
        simp only [Cat.numDumps]
        rw [List.getLastD_eq_getLast?, List.getLast?_eq_some_getLast hne]
        exact List.getLast_mem hne
      obtain ⟨nxt, hnxt⟩ : ∃ n, n = (c.ev.filter (fun x => decide (e < x))).headD 0 := ⟨_, rfl⟩
      have hfne : c.ev.filter (fun x => decide (e < x)) ≠ [] := by
        intro h0
        have := List.filter_eq_nil_iff.mp h0 c.numDumps hNmem
        simp at this; omega
      have hnxtmem : nxt ∈ c.ev.filter (fun x => decide (e < x)) := by
        rw [hnxt]
        cases hf : c.ev.filter (fun x => decide (e < x)) with
        | nil => exact absurd hf hfne
        | cons a t => simp
      have hnxt1 : e < nxt := by simpa using (List.mem_filter.mp hnxtmem).2
      have hnxtN : nxt ≤ c.numDumps := by
        have hm := (List.mem_filter.mp hnxtmem).1
        have := sorted_head_le_last
        -- every boundary is at most the last one
        have hle : ∀ y ∈ c.ev, y ≤ c.numDumps := by
          intro y hy
          have hdl : c.ev = c.ev.dropLast ++ [c.numDumps] := by
            simp only [Cat.numDumps]
            rw [List.getLastD_eq_getLast?, List.getLast?_eq_some_getLast hne]
            exact (List.dropLast_concat_getLast hne).symm
          rw [hdl] at hy hstrict
          simp only [List.mem_append, List.mem_singleton] at hy
          rcases hy with hy | rfl
          · exact Nat.le_of_lt ((List.pairwise_append.mp hstrict).2.2 y hy _ (by simp))
          · exact Nat.le_refl _
        exact hle nxt hm
      -- no boundary strictly between e and nxt
      have hgap : ∀ y ∈ c.ev, e < y → nxt ≤ y := by
        intro y hy hey
        have hym : y ∈ c.ev.filter (fun x => decide (e < x)) := List.mem_filter.mpr ⟨hy, by simpa using hey⟩
        have hfs : (c.ev.filter (fun x => decide (e < x))).Pairwise (· < ·) :=
          List.Pairwise.sublist List.filter_sublist hstrict
        cases hf : c.ev.filter (fun x => decide (e < x)) with
        | nil => exact absurd hf hfne
        | cons a t =>
          rw [hf] at hym hfs hnxt
          simp only [List.headD_cons] at hnxt
          subst hnxt
          rcases List.mem_cons.mp hym with rfl | hyt
          · exact Nat.le_refl _
          · exact Nat.le_of_lt ((List.pairwise_cons.mp hfs).1 y hyt)
      rw [← hnxt]
      apply splice_same _ _ e nxt (Nat.le_of_lt hnxt1) (by rw [perDump_length c h]; exact hnxtN)
      intro d hed hdn
      -- lookup at d = lookup at e
      have hsame : c.lookup1 (d : Int) = c.lookup1 (e : Int) := by
        simp only [Cat.lookup1]
        have : c.ev.takeWhile (fun (x : Nat) => decide ((x : Int) ≤ (d : Int))) =
            c.ev.takeWhile (fun (x : Nat) => decide ((x : Int) ≤ (e : Int))) := by
          apply takeWhile_congr_mem
          intro y hy
          by_cases hye : y ≤ e
          · have : y ≤ d := by omega
            simp [hye, this]
          · have h1 := hgap y hy (by omega)
            have : ¬ y ≤ d := by omega
            simp [hye, this]
        rw [this]
      have hpd := lookup1_perDumpIdx c h d
      rw [hsame, hl] at hpd
      rw [perDump_eq_idx, List.getElem?_map]
      cases hq : c.perDumpIdx[d]? with
      | none => rw [hq] at hpd; simp at hpd
      | some o =>
        rw [hq] at hpd
        cases o with
        | none => simp at hpd
        | some j =>
          simp only [Except.ok.injEq] at hpd
          subst hpd
          simp [List.getElem?_eq_getElem hi1]

/-- **add_unmatched never changes any dump's value** (it only adds duplicate events) -/
theorem addUnmatched_perDump (c : Cat V) (h : c.WF) (segs : List Nat) (dist : Nat) (c' : Cat V)
    (hau : c.addUnmatched segs dist = .ok c') : c'.perDump = c.perDump := by
  simp only [Cat.addUnmatched] at hau
  split at hau
  · simp at hau
  · generalize segs.filter _ = un at hau
    have key : ∀ (l : List Nat) (a r : Cat V), a.WF → a.perDump = c.perDump →
        l.foldlM (fun (acc : Cat V) s =>
          match acc.add s none with
          | Except.ok c' => (pure c' : Except Err (Cat V))
          | Except.error Err.index => pure acc
          | Except.error e => Except.error e) a = Except.ok r → r.perDump = c.perDump := by
      intro l
      induction l with
      | nil => intro a r _ hn hf; simp only [List.foldlM, pure, Except.pure, Except.ok.injEq] at hf; subst hf; exact hn
      | cons s t ih =>
        intro a r ha hn hf
        simp only [List.foldlM, bind, Except.bind] at hf
        cases hadd : a.add s none with
        | ok a' =>
          simp only [hadd, pure, Except.pure] at hf
          have hs : s < a.numDumps := by
            simp only [Cat.add] at hadd
            cases hl : a.lookup1 (s : Int) with
            | error e => simp [hl, bind, Except.bind] at hadd
            | ok i => exact lookup1_lt_numDumps a ha s i hl
          have hw := (add_wf a ha s none hs a' hadd).1
          have hp := add_none_perDump a ha s a' hadd
          exact ih a' r hw (by rw [hp, hn]) hf
        | error e =>
          cases e with
          | index =>
            simp only [hadd, pure, Except.pure] at hf
            exact ih a r ha hn hf
          | value => simp [hadd] at hf
          | type => simp [hadd] at hf
          | key => simp [hadd] at hf
          | notImpl => simp [hadd] at hf
          | other => simp [hadd] at hf
    exact key un c c' h rfl hau

end Categorical
