/-
  C17 — v4 time and frequency axes; preselection is equivalent to selection.

  "Dump i of a v4 data set has mid-point timestamp sync_time + first_timestamp + i*int_time +
   time_offset (minus one correlator dump period for captures made before the documented fix
   dates), start and end times bracket the first and last dumps by half a dump, and channel k has
   frequency centre_freq + (k - N//2) * bandwidth / N.  Opening with preselect of dumps and
   channels yields the same timestamps, frequencies, visibilities, flags, weights and numeric
   sensor values as opening the whole data set and selecting the same ranges, with later
   selections interpreted relative to the preselected subset, while non-unit-step or unknown
   preselect keys are rejected.  Sub-ranges and re-channelisations of a spectral window keep
   channel centres and band edges aligned with the original."

  Model: KatdalModel/Model/TimeFreq.lean (mirror of TelstateDataSource.__init__,
  VisibilityDataV4.__init__ "Extract timestamps"/"Extract spectral windows", SpectralWindow,
  and the mask semantics of DataSet.select(dumps=, channels=)), over exact rationals.
  Spec side: the closed forms below (`rawT`, `fixDate`, `spwWhole`, `selRange`, band edges).

  Two parts of the English statement are *false* of the code as it stands and are therefore
  stated with a hypothesis (`…_partial`) next to a proved counterexample (`…_full_is_false`):
    * an empty preselect range cannot be opened at all (IndexError) although selecting the same
      empty range on the whole data set works;
    * the workaround decision looks at the first *preselected* dump, so a capture that straddles a
      fix date gets different timestamps with and without a dump preselect.
-/
import KatdalModel.Lemmas.TimeFreq
open Np Index TimeFreq TimeFreqL

namespace C17

/-! ### concrete configuration used by the non-vacuity examples -/

def cfg0 : Cfg where
  sync := 100
  first := 28
  intTime := 2
  timeOffset := 0
  T := 6
  F := 4
  cbf := some (1/2)
  cmc2 := true
  cbf4k := true
  centre := 1000
  bandwidth := 40
  d1 := 131
  d2 := 500
  d3 := 900

/-! ### the workaround rule -/

/-- The boolean formula in the code is the documented table: with the three fix dates in
    increasing order, the correction applies iff the capture started before the fix date of its
    CBF generation and mode (CMC2 4k: d1, CMC2 1k: d2, CMC1 any mode: d3). -/
theorem c17_fix_rule (d1 d2 d3 t : Rat) (h12 : d1 < d2) (h23 : d2 < d3) (cmc2 cbf4k : Bool) :
    fixApplies (decide (t < d1)) (decide (t < d2)) (decide (t < d3)) cmc2 cbf4k = true
      ↔ t < fixDate d1 d2 d3 cmc2 cbf4k := by
  rw [fix_rule d1 d2 d3 t h12 h23]; simp

example : fixApplies (decide ((140 : Rat) < 131)) (decide ((140 : Rat) < 500)) (decide ((140 : Rat) < 900))
    true false = true := by decide +kernel
example : fixApplies (decide ((140 : Rat) < 131)) (decide ((140 : Rat) < 500)) (decide ((140 : Rat) < 900))
    true true = false := by decide +kernel

/-- the order of the dates matters: with d2 < d1 the formula is not the table -/
theorem c17_fix_rule_needs_order :
    ¬ ∀ (d1 d2 d3 t : Rat) (cmc2 cbf4k : Bool),
      (fixApplies (decide (t < d1)) (decide (t < d2)) (decide (t < d3)) cmc2 cbf4k = true
        ↔ t < fixDate d1 d2 d3 cmc2 cbf4k) := by
  intro h
  have := h 10 5 20 7 true false
  revert this
  decide +kernel

/-- the correction as a function of the documented quantities -/
theorem corr_eq (c : Cfg) (h12 : c.d1 < c.d2) (h23 : c.d2 < c.d3) (t : Rat) :
    corr c t = if t < fixDate c.d1 c.d2 c.d3 c.cmc2 c.cbf4k then c.cbf.getD 0 else 0 := by
  unfold corr
  rw [fix_rule c.d1 c.d2 c.d3 t h12 h23]
  by_cases h : t < fixDate c.d1 c.d2 c.d3 c.cmc2 c.cbf4k
  · simp only [h, decide_true, if_true]
    cases c.cbf <;> rfl
  · simp only [h, decide_false, if_false]

/-! ### timestamps, start and end time -/

/-- Opening the whole data set: there are `T` dumps, dump `i` has mid-point
    `sync_time + first_timestamp + i*int_time + d.time_offset`, and the recorded `d.time_offset`
    is the user's `time_offset` minus one CBF dump period exactly when the first (offset) dump is
    before the fix date for the capture's CBF generation/mode and the CBF dump period is known. -/
theorem c17_timestamps (c : Cfg) (o : Opened) (hF : 0 < c.F) (h12 : c.d1 < c.d2) (h23 : c.d2 < c.d3)
    (h : openV4 c {} = .ok o) :
    o.ts.length = c.T ∧
    (∀ i, i < c.T → o.ts.getD i 0 = c.sync + c.first + (i : Rat) * c.intTime + o.timeOffset) ∧
    o.timeOffset = c.timeOffset -
      (if c.sync + c.first + c.timeOffset < fixDate c.d1 c.d2 c.d3 c.cmc2 c.cbf4k then c.cbf.getD 0 else 0) := by
  obtain ⟨_, _, _, _, _, _, _, hoff, hts, _⟩ := openV4_spec c {} o hF h
  simp only [selRange_none, Nat.sub_zero] at hoff hts
  refine ⟨by rw [hts]; simp, ?_, ?_⟩
  · intro i hi
    rw [hts, getD_map_range' _ _ _ _ _ hi]
    simp [rawT]
  · have h0 : rawT c 0 = c.sync + c.first := by
      have hz : ((0 : Nat) : Rat) = 0 := by simp
      rw [rawT, hz]; grind
    rw [hoff, corr_eq c h12 h23, h0]

example : (openV4 cfg0 {}).toOption.map (·.ts) = some [255/2, 259/2, 263/2, 267/2, 271/2, 275/2] := by
  decide +kernel
example : (openV4 { cfg0 with cbf4k := false } {}).toOption.map (·.timeOffset) = some (-1/2) := by
  decide +kernel
example : (openV4 { cfg0 with sync := 104 } {}).toOption.map (·.timeOffset) = some 0 := by decide +kernel
example : (openV4 { cfg0 with cbf := none } {}).toOption.map (·.timeOffset) = some 0 := by decide +kernel

/-- With a dump preselect `[lo, hi)` the opened data set has `hi - lo` dumps and dump `i` is stored
    dump `lo + i` with the same formula (the recorded offset is decided on dump `lo`). -/
theorem c17_timestamps_preselect (c : Cfg) (p : Preselect) (o : Opened) (hF : 0 < c.F)
    (h : openV4 c p = .ok o) :
    o.ts.length = (selRange c.T p.dumps).2 - (selRange c.T p.dumps).1 ∧
    (∀ i, i < (selRange c.T p.dumps).2 - (selRange c.T p.dumps).1 →
      o.ts.getD i 0 = c.sync + c.first + (((selRange c.T p.dumps).1 + i : Nat) : Rat) * c.intTime + o.timeOffset ∧
      o.dumpBase.getD i 0 = (selRange c.T p.dumps).1 + i) := by
  obtain ⟨_, _, _, _, _, hdb, _, _, hts, _⟩ := openV4_spec c p o hF h
  refine ⟨by rw [hts]; simp, ?_⟩
  intro i hi
  rw [hts, hdb, getD_map_range' _ _ _ _ _ hi, getD_range' _ _ _ _ hi]
  simp [rawT]

example : (openV4 cfg0 { dumps := some (.slice (some 2) (some 5) none) }).toOption.map (·.ts)
    = some [132, 134, 136] := by decide +kernel

/-- Start and end time bracket the first and last dump by half a dump; the data set therefore
    spans exactly (number of dumps) × int_time. -/
theorem c17_start_end (c : Cfg) (p : Preselect) (o : Opened) (hF : 0 < c.F) (h : openV4 c p = .ok o) :
    o.startT = o.ts.getD 0 0 - c.intTime / 2 ∧
    o.endT = o.ts.getD (o.ts.length - 1) 0 + c.intTime / 2 ∧
    o.endT - o.startT = (o.ts.length : Rat) * c.intTime := by
  obtain ⟨_, hlt, _, _, _, _, _, _, hts, hs, he, _⟩ := openV4_spec c p o hF h
  generalize hlo : (selRange c.T p.dumps).1 = lo at *
  generalize hhi : (selRange c.T p.dumps).2 = hi at *
  have hlen : o.ts.length = hi - lo := by rw [hts]; simp
  have h0 : o.ts.getD 0 0 = rawT c lo + o.timeOffset := by
    rw [hts, getD_map_range' _ _ _ _ _ (by omega)]; simp
  have h1 : o.ts.getD (o.ts.length - 1) 0 = rawT c (hi - 1) + o.timeOffset := by
    rw [hlen, hts, getD_map_range' _ _ _ _ _ (by omega)]
    have : lo + (hi - lo - 1) = hi - 1 := by omega
    rw [this]
  refine ⟨by rw [hs, h0], by rw [he, h1], ?_⟩
  rw [hs, he, hlen]
  have hc : ((hi - 1 : Nat) : Rat) = (lo : Rat) + ((hi - lo : Nat) : Rat) - 1 := by
    have : hi - 1 + 1 = lo + (hi - lo) := by omega
    have h2 : ((hi - 1 : Nat) : Rat) + 1 = (lo : Rat) + ((hi - lo : Nat) : Rat) := by exact_mod_cast this
    grind
  simp only [rawT, hc]
  grind

example : (openV4 cfg0 {}).toOption.map (fun o => (o.startT, o.endT)) = some (253/2, 277/2) := by
  decide +kernel

/-! ### frequencies -/

/-- Channel `k` of the whole data set has frequency `centre_freq + (k - N//2) * bandwidth / N`;
    with a channel preselect `[clo, chi)` channel `k` is stored channel `clo + k`. -/
theorem c17_freqs (c : Cfg) (p : Preselect) (o : Opened) (hF : 0 < c.F) (h : openV4 c p = .ok o) :
    o.spw.n = (selRange c.F p.channels).2 - (selRange c.F p.channels).1 ∧
    o.spw.sideband = 1 ∧
    (∀ k, o.spw.freq k = c.centre
        + ((((selRange c.F p.channels).1 + k : Nat) : Rat) - ((c.F / 2 : Nat) : Rat)) * c.bandwidth / (c.F : Rat)) ∧
    (∀ k, k < o.spw.n → o.chanBase.getD k 0 = (selRange c.F p.channels).1 + k) ∧
    o.spw.width = c.bandwidth / (c.F : Rat) := by
  obtain ⟨hv, _, _, _, _, _, hcb, _, _, _, _, hn, hsb, hwf, hfreq⟩ := openV4_spec c p o hF h
  refine ⟨hn, hsb, ?_, ?_, ?_⟩
  · intro k
    rw [hfreq k, spwWhole_freq c hF]
  · intro k hk
    rw [hcb, getD_range' _ _ _ _ (by omega)]
  · -- channel width is kept by the sub-range
    unfold openV4 at h
    cases hs : openSource c p with
    | error e => simp [hs, bind, Except.bind] at h
    | ok r =>
      obtain ⟨db, cb, ts1⟩ := r
      simp only [hs, bind, Except.bind] at h
      cases hsh : shiftTimestamps c ts1 with
      | error e => simp [hsh] at h
      | ok r2 =>
        simp only [hsh] at h
        cases hw : openSpw c p with
        | error e => simp [hw] at h
        | ok w =>
          simp only [hw, pure, Except.pure] at h
          injection h with h
          subst h
          simp only
          unfold openSpw at hw
          split at hw
          · injection hw with hw; subst hw; simp [SpW.new]
          · split at hw
            · cases hw
            · have := (subrange_width _ _ _ _ (new_wf_none _ _ _ _ hF) hw).1
              simpa [SpW.new] using this
          · cases hw

example : (openV4 cfg0 {}).toOption.map (·.spw.channelFreqs) = some [980, 990, 1000, 1010] := by
  decide +kernel
example : (openV4 cfg0 { channels := some (.slice (some 1) (some 3) none) }).toOption.map (·.spw.channelFreqs)
    = some [990, 1000] := by decide +kernel

/-! ### spectral windows -/

/-- Channel `k` of `subrange(a, b)` is channel `a + k` of the original (any sideband, odd or even
    channel counts): the integer identity `(a+b)//2 - (b-a)//2 = a` behind the centre-frequency update. -/
theorem c17_subrange_freqs (w w' : SpW) (a b : Int) (hw : 0 < w.n) (h : w.subrange a b = .ok w') :
    0 ≤ a ∧ a < b ∧ b ≤ (w.n : Int) ∧ w'.n = (b - a).toNat ∧ w'.sideband = w.sideband ∧
    ∀ k, w'.freq k = w.freq (a.toNat + k) := by
  obtain ⟨h0, h1, h2, _⟩ := subrange_ok w w' a b h
  obtain ⟨g1, g2, _⟩ := subrange_freq w w' a b 0 hw h
  exact ⟨h0, h1, h2, g1, g2, fun k => (subrange_freq w w' a b k hw h).2.2⟩

theorem c17_subrange_centre_identity (a b : Int) :
    (a + b) / 2 - (b - a) / 2 = a := by omega

/-- `subrange` accepts exactly the non-empty sub-intervals -/
theorem c17_subrange_domain (w : SpW) (a b : Int) :
    (∃ w', w.subrange a b = .ok w') ↔ (0 ≤ a ∧ a < b ∧ b ≤ (w.n : Int)) := by
  constructor
  · rintro ⟨w', h⟩
    obtain ⟨h0, h1, h2, _⟩ := subrange_ok w w' a b h
    exact ⟨h0, h1, h2⟩
  · intro h
    unfold SpW.subrange
    simp [h]

/-- channel width is kept and the bandwidth scales with the channel count -/
theorem c17_subrange_width (w w' : SpW) (a b : Int) (hw : w.wf) (h : w.subrange a b = .ok w') :
    w'.width = w.width ∧ w'.bandwidth = w.width * ((b - a).toNat : Rat) ∧ w'.wf :=
  ⟨(subrange_width w w' a b hw h).1, (subrange_width w w' a b hw h).2, subrange_wf w w' a b h⟩

def lsb6 : SpW := SpW.new 1000 10 6 (-1) none
def odd5 : SpW := SpW.new 1000 10 5 1 none

example : lsb6.channelFreqs = [1030, 1020, 1010, 1000, 990, 980] := by decide +kernel
example : (lsb6.subrange 0 3).toOption.map (·.channelFreqs) = some [1030, 1020, 1010] := by decide +kernel
example : (odd5.subrange 1 4).toOption.map (·.channelFreqs) = some [990, 1000, 1010] := by decide +kernel
example : (lsb6.subrange 3 3) = .error .index := by decide +kernel

/-- `rechannelise(m)` keeps both outer band edges, the sideband and the bandwidth, divides the
    band into `m` channels, and is the identity when the channel count is unchanged. -/
theorem c17_rechannelise_edges (w : SpW) (m : Nat) (hw : w.wf) (hm : 0 < m) :
    (w.rechannelise m).n = m ∧ (w.rechannelise m).sideband = w.sideband ∧
    (w.rechannelise m).bandwidth = w.bandwidth ∧
    (w.rechannelise m).edgeFirst = w.edgeFirst ∧ (w.rechannelise m).edgeLast = w.edgeLast ∧
    (w.rechannelise m).wf := by
  have hwf := rechannelise_wf w m hw hm
  have hbc := rechannelise_bandCentre w m hm
  by_cases h : m = w.n
  · subst h
    simp [SpW.rechannelise, hw]
  · obtain ⟨f1, f2, f3, _⟩ := rechannelise_fields w m h
    refine ⟨f1, f2, f3, ?_, ?_, hwf⟩
    · rw [edgeFirst_eq _ hwf, edgeFirst_eq _ hw, hbc, f2, f3]
    · rw [edgeLast_eq _ hwf, edgeLast_eq _ hw, hbc, f2, f3]

theorem c17_rechannelise_same (w : SpW) : w.rechannelise w.n = w := by
  simp [SpW.rechannelise]

/-- the band edges are where the documentation puts them: half the bandwidth either side of the
    band centre, which is the centre frequency for odd channel counts and half a channel below
    (in sideband direction) the centre frequency for even channel counts -/
theorem c17_band_edges (w : SpW) (hw : w.wf) :
    w.edgeFirst = bandCentre w - (w.sideband : Rat) * w.bandwidth / 2 ∧
    w.edgeLast = bandCentre w + (w.sideband : Rat) * w.bandwidth / 2 :=
  ⟨edgeFirst_eq w hw, edgeLast_eq w hw⟩

/-- going to another channel count and back restores the window exactly -/
theorem c17_rechannelise_roundtrip (w : SpW) (m : Nat) (hw : w.wf) (hm : 0 < m) :
    (w.rechannelise m).rechannelise w.n = w := by
  by_cases h : m = w.n
  · subst h; simp [SpW.rechannelise]
  · obtain ⟨hn, hb⟩ := hw
    have hn' := natCast_ne_zero hn
    have hm' := natCast_ne_zero hm
    have hne : w.n ≠ m := fun e => h e.symm
    obtain ⟨c, wd, bw, n, sb⟩ := w
    simp only at hn hb hn' hne h
    simp only [SpW.rechannelise, h, hne, if_false, SpW.new, SpW.mk.injEq, and_true]
    refine ⟨?_, by grind⟩
    by_cases e1 : n % 2 = 0 <;> by_cases e2 : m % 2 = 0 <;> simp only [e1, e2, if_true, if_false] <;> grind

example : (lsb6.rechannelise 3).channelFreqs = [1025, 1005, 985] := by decide +kernel
example : (lsb6.rechannelise 2).channelFreqs = [1020, 990] := by decide +kernel
example : (odd5.rechannelise 1).channelFreqs = [1000] := by decide +kernel
example : lsb6.edgeFirst = 1035 ∧ (lsb6.rechannelise 4).edgeFirst = 1035 ∧ lsb6.edgeLast = 975 := by
  decide +kernel

/-! ### preselection -/

/-- `preselect` is accepted iff it has no key besides `dumps`/`channels` and every value is a slice
    whose step is `None` or 1; everything else is rejected (IndexError), whatever else is passed. -/
theorem c17_preselect_rejects (p : Preselect) :
    (validatePreselect p = .ok () ↔
      (p.extra = [] ∧
       (∀ v, p.dumps = some v → ∃ a b s, v = .slice a b s ∧ (s = none ∨ s = some 1)) ∧
       (∀ v, p.channels = some v → ∃ a b s, v = .slice a b s ∧ (s = none ∨ s = some 1)))) ∧
    (validatePreselect p ≠ .ok () → validatePreselect p = .error .index ∧
      ∀ c, openV4 c p = .error .index) := by
  constructor
  · constructor
    · exact validate_ok p
    · rintro ⟨h1, h2, h3⟩
      unfold validatePreselect
      have hd : (p.dumps.map PreVal.unitSlice).getD true = true := by
        cases hp : p.dumps with
        | none => rfl
        | some v =>
          obtain ⟨a, b, s, rfl, hs⟩ := h2 v hp
          rcases hs with rfl | rfl <;> rfl
      have hc : (p.channels.map PreVal.unitSlice).getD true = true := by
        cases hp : p.channels with
        | none => rfl
        | some v =>
          obtain ⟨a, b, s, rfl, hs⟩ := h3 v hp
          rcases hs with rfl | rfl <;> rfl
      simp [h1, hd, hc]
  · intro hne
    have hcases : validatePreselect p = .ok () ∨ validatePreselect p = .error .index := by
      unfold validatePreselect
      split
      · exact Or.inr rfl
      · split
        · exact Or.inr rfl
        · split
          · exact Or.inr rfl
          · exact Or.inl rfl
    have : validatePreselect p = .error .index := hcases.resolve_left hne
    refine ⟨this, ?_⟩
    intro c
    simp [openV4, openSource, this, bind, Except.bind]

example : ∀ c, openV4 c { dumps := some (.slice (some 0) (some 4) (some 2)) } = .error .index :=
  ((c17_preselect_rejects _).2 (by decide)).2
example : ∀ c, openV4 c { extra := ["frequencies"] } = .error .index :=
  ((c17_preselect_rejects _).2 (by decide)).2
example : ∀ c, openV4 c { channels := some .other } = .error .index :=
  ((c17_preselect_rejects _).2 (by decide)).2
example : validatePreselect { dumps := some (.slice (some (-3)) none (some 1)) } = .ok () := by decide

/-- Index arithmetic behind "later selections are relative to the preselected subset": a slice
    taken on the sub-axis `[lo, lo+m)` is the same slice with both bounds moved by `lo` on the whole
    axis (positive steps, explicit in-range bounds). -/
theorem c17_slice_compose (n m lo : Nat) (x y st : Int) (hm : lo + m ≤ n) (hst : 0 < st)
    (hx : 0 ≤ x ∧ x ≤ m) (hy : 0 ≤ y ∧ y ≤ m) :
    sliceList n (some (lo + x)) (some (lo + y)) (some st)
      = (sliceList m (some x) (some y) (some st)).map (fun l => l.map (· + (lo : Int))) := by
  have h1 : sliceIndices m (some x) (some y) (some st) = some (x, y, st) := by
    unfold sliceIndices
    have : ¬ st = 0 := by omega
    have h2 : ¬ st < 0 := by omega
    simp only [Option.getD_some, this, h2, if_false]
    congr 2
    · split <;> (try split) <;> (try split) <;> omega
    · congr 1
      split <;> (try split) <;> (try split) <;> omega
  have h2 : sliceIndices n (some (lo + x)) (some (lo + y)) (some st) = some (lo + x, lo + y, st) := by
    unfold sliceIndices
    have : ¬ st = 0 := by omega
    have h2 : ¬ st < 0 := by omega
    simp only [Option.getD_some, this, h2, if_false]
    congr 2
    · split <;> (try split) <;> (try split) <;> omega
    · congr 1
      split <;> (try split) <;> (try split) <;> omega
  simp only [sliceList, h1, h2, Option.map_some]
  congr 1
  have := rangeList_shift x y st lo
  rw [this]
  congr 1 <;> omega

example : sliceList 10 (some 4) (some 9) (some 2) = (sliceList 6 (some 1) (some 6) (some 2)).map
    (fun l => l.map (· + 3)) := by decide

/-- **preselect ≡ select** (timestamps, frequencies, and the stored dump/channel behind every
    visibility, flag and weight), for every accepted preselect that can be opened and any later
    `select(dumps=σd, channels=σc)`: the preselected data set shows what the whole data set shows
    after selecting the kept positions moved by the start of the preselected range — provided
    both openings recorded the same `time_offset` (same workaround decision, see below) -/
theorem c17_preselect_equiv_partial (c : Cfg) (p : Preselect) (P W : Opened) (hF : 0 < c.F)
    (hP : openV4 c p = .ok P) (hW : openV4 c {} = .ok W) (hsame : P.timeOffset = W.timeOffset) :
    -- no later selection: same as selecting the same ranges on the whole data set
    P.observe none none = W.observe (toIx p.dumps) (toIx p.channels) ∧
    -- later selections are relative to the preselected subset
    (∀ (σd σc : Option Ix) (kd kc : List Nat),
      keepPositions P.ts.length σd = .ok kd → keepPositions P.spw.n σc = .ok kc →
      P.observe σd σc
        = W.observe (some (.list ((kd.map ((selRange c.T p.dumps).1 + ·)).map Int.ofNat)))
                    (some (.list ((kc.map ((selRange c.F p.channels).1 + ·)).map Int.ofNat)))) :=
  ⟨observe_same_ranges c p P W hF hP hW hsame,
   fun σd σc kd kc hkd hkc => observe_shift c p P W hF hP hW hsame σd σc kd kc hkd hkc⟩

/-- the hypothesis of the equivalence holds whenever the CBF dump period is unknown, or the first
    dump of the capture and the first preselected dump are on the same side of the applicable fix
    date -/
theorem c17_same_workaround (c : Cfg) (p : Preselect) (P W : Opened) (hF : 0 < c.F)
    (h12 : c.d1 < c.d2) (h23 : c.d2 < c.d3)
    (hP : openV4 c p = .ok P) (hW : openV4 c {} = .ok W)
    (hside : c.cbf = none ∨
      (rawT c (selRange c.T p.dumps).1 + c.timeOffset < fixDate c.d1 c.d2 c.d3 c.cmc2 c.cbf4k
        ↔ rawT c 0 + c.timeOffset < fixDate c.d1 c.d2 c.d3 c.cmc2 c.cbf4k)) :
    P.timeOffset = W.timeOffset := by
  obtain ⟨_, _, _, _, _, _, _, hp, _⟩ := openV4_spec c p P hF hP
  obtain ⟨_, _, _, _, _, _, _, hw, _⟩ := openV4_spec c {} W hF hW
  simp only [selRange_none] at hw
  rw [hp, hw, corr_eq c h12 h23, corr_eq c h12 h23]
  rcases hside with hn | hiff
  · simp [hn]
  · by_cases hb : rawT c 0 + c.timeOffset < fixDate c.d1 c.d2 c.d3 c.cmc2 c.cbf4k
    · simp [hb, hiff.mpr hb]
    · have : ¬ rawT c (selRange c.T p.dumps).1 + c.timeOffset < fixDate c.d1 c.d2 c.d3 c.cmc2 c.cbf4k :=
        fun h => hb (hiff.mp h)
      simp [hb, this]

def cfg1 : Cfg := { cfg0 with sync := 200 }

example : (openV4 cfg1 { dumps := some (.slice (some 2) (some 5) none),
                         channels := some (.slice (some 1) none none) }).toOption.map
      (fun P => P.observe (some (.slice (some 1) none none)) (some (.mask [true, false, true])))
    = (openV4 cfg1 {}).toOption.map
      (fun W => W.observe (some (.list [3, 4])) (some (.list [1, 3]))) := by
  decide +kernel
example : ((openV4 cfg1 {}).toOption.map
      (fun W => W.observe (some (.list [3, 4])) (some (.list [1, 3]))))
    = some (.ok { ts := [234, 236], freqs := [990, 1010], dumpPos := [3, 4], chanPos := [1, 3] }) := by
  decide +kernel

/-- The mirror model of "open with preselect, then select" produces exactly the documented closed
    forms (`specObserve`, the reference the harness compares the implementation with), under the
    same proviso on the workaround decision. -/
theorem c17_meets_spec_partial (c : Cfg) (p : Preselect) (P : Opened) (hF : 0 < c.F)
    (h12 : c.d1 < c.d2) (h23 : c.d2 < c.d3) (hP : openV4 c p = .ok P)
    (hside : c.cbf = none ∨
      (rawT c (selRange c.T p.dumps).1 + c.timeOffset < fixDate c.d1 c.d2 c.d3 c.cmc2 c.cbf4k
        ↔ rawT c 0 + c.timeOffset < fixDate c.d1 c.d2 c.d3 c.cmc2 c.cbf4k))
    (sd sc : Option Ix) :
    (do let o ← P.observe sd sc; pure (o, P.timeOffset, P.startT, P.endT)) = specObserve c p sd sc := by
  obtain ⟨hv, _, _, _, _, hdb, hcb, hoff, hts, hs, he, hn, _, _, _⟩ := openV4_spec c p P hF hP
  obtain ⟨_, _, hfreq, _, _⟩ := c17_freqs c p P hF hP
  have hoff' : P.timeOffset = c.timeOffset -
      (if decide (rawT c 0 + c.timeOffset < fixDate c.d1 c.d2 c.d3 c.cmc2 c.cbf4k) = true
        then c.cbf.getD 0 else 0) := by
    rw [hoff, corr_eq c h12 h23]
    rcases hside with hn' | hiff
    · simp [hn']
    · by_cases hb : rawT c 0 + c.timeOffset < fixDate c.d1 c.d2 c.d3 c.cmc2 c.cbf4k
      · simp [hb, hiff.mpr hb]
      · have : ¬ rawT c (selRange c.T p.dumps).1 + c.timeOffset < fixDate c.d1 c.d2 c.d3 c.cmc2 c.cbf4k :=
          fun h => hb (hiff.mp h)
        simp [hb, this]
  generalize hlo : (selRange c.T p.dumps).1 = lo at *
  generalize hhi : (selRange c.T p.dumps).2 = hi at *
  generalize hclo : (selRange c.F p.channels).1 = clo at *
  generalize hchi : (selRange c.F p.channels).2 = chi at *
  have hlen : P.ts.length = hi - lo := by rw [hts]; simp
  have hsel1 : selRange c.T p.dumps = (lo, hi) := by rw [← hlo, ← hhi]
  have hsel2 : selRange c.F p.channels = (clo, chi) := by rw [← hclo, ← hchi]
  simp only [specObserve, Opened.observe, hv, hsel1, hsel2, hlen, hn, bind, Except.bind, pure, Except.pure]
  cases hkd : keepPositions (hi - lo) sd with
  | error e => rfl
  | ok kd =>
    cases hkc : keepPositions (chi - clo) sc with
    | error e => rfl
    | ok kc =>
      obtain ⟨hkdlt, _⟩ := keepPositions_lt _ _ _ hkd
      obtain ⟨hkclt, _⟩ := keepPositions_lt _ _ _ hkc
      simp only [Except.ok.injEq, Prod.mk.injEq, Obs.mk.injEq]
      refine ⟨⟨?_, ?_, ?_, ?_⟩, hoff', by rw [hs, hoff'], by rw [he, hoff']⟩
      · apply List.map_congr_left
        intro i hi'
        rw [hts, getD_map_range' _ _ _ _ _ (hkdlt i hi'), hoff']
      · apply List.map_congr_left
        intro k _
        exact hfreq k
      · apply List.map_congr_left
        intro i hi'
        rw [hdb, getD_range' _ _ _ _ (hkdlt i hi')]
      · apply List.map_congr_left
        intro k hk'
        rw [hcb, getD_range' _ _ _ _ (hkclt k hk')]

example : (specObserve cfg1 { dumps := some (.slice (some 2) (some 5) none),
                              channels := some (.slice (some 1) none none) }
            (some (.slice (some 1) none none)) (some (.mask [true, false, true])))
    = .ok ({ ts := [234, 236], freqs := [990, 1010], dumpPos := [3, 4], chanPos := [1, 3] }, 0, 231, 237) := by
  decide +kernel

/-- The unconditional equivalence is false (1): a capture that straddles a fix date.  Dumps 0, 1
    are before `d1`, dump 2 is after; the whole data set is corrected by half a second, the
    preselected one is not. -/
theorem c17_preselect_equiv_full_is_false :
    ¬ ∀ (c : Cfg) (p : Preselect) (P W : Opened), 0 < c.F → c.d1 < c.d2 → c.d2 < c.d3 →
        openV4 c p = .ok P → openV4 c {} = .ok W →
        P.observe none none = W.observe (toIx p.dumps) (toIx p.channels) := by
  intro h
  have := h cfg0 { dumps := some (.slice (some 2) (some 5) none) }
    ((openV4 cfg0 { dumps := some (.slice (some 2) (some 5) none) }).toOption.getD default)
    ((openV4 cfg0 {}).toOption.getD default)
    (by decide) (by decide +kernel) (by decide +kernel) (by decide +kernel) (by decide +kernel)
  revert this
  decide +kernel

/-- The unconditional equivalence is false (2): an empty preselect range is accepted by the
    validation but the data set cannot be opened (IndexError on `timestamps[0]` for dumps, in
    `subrange` for channels), although selecting the same empty range on the whole data set is fine. -/
theorem c17_preselect_empty_full_is_false (c : Cfg) (p : Preselect) (hF : 0 < c.F)
    (hempty : (selRange c.T p.dumps).2 ≤ (selRange c.T p.dumps).1 ∨
              (selRange c.F p.channels).2 ≤ (selRange c.F p.channels).1) :
    ∀ o, openV4 c p ≠ .ok o := by
  intro o h
  obtain ⟨_, h1, _, h2, _⟩ := openV4_spec c p o hF h
  omega

example : validatePreselect { dumps := some (.slice (some 3) (some 3) none) } = .ok () ∧
    openV4 cfg0 { dumps := some (.slice (some 3) (some 3) none) } = .error .index ∧
    ((openV4 cfg0 {}).toOption.map fun W => W.observe (some (.slice (some 3) (some 3) none)) none)
      = some (.ok { ts := [], freqs := [980, 990, 1000, 1010], dumpPos := [], chanPos := [0, 1, 2, 3] }) := by
  decide +kernel

end C17
