#!/bin/bash
# Re-run every kept seeded change against the checks as they stand now, several at a time: each in its own scratch
# worktree handed to the check through PYTHONPATH (tools/try_seeded.sh in its default mode, which never touches
# /repo's working tree).  Writes seeded/<id>/recheck.txt; PAR=<n> runs n at a time; ONLY="C05 C06" limits the
# properties; OUT=<name> writes seeded/<id>/<name> instead (e.g. a pass under another VERIF_SEED).  Checks regenerate lean/KatdalModel/Generated/*.lean from the tree they are pointed at, so two
# overlapping runs on DIFFERENTLY patched trees that both touch a generated table (flag names, error maps) can
# break each other's build (exit 2, CHECK-BROKEN): re-run those singly.  The pass to the letter of the brief (patch applied to /repo itself) is tools/final_repo_pass.sh.
cd /verif || exit 2
one() {
  d=seeded/$1
  prop=$(python3 -c "import json;print(json.load(open('$d/meta.json'))['breaks_property'])")
  extra=$(python3 -c "
import json,re
m=json.load(open('$d/meta.json'))
own=m['breaks_property']
txt=(m.get('check_result','')+' '+m.get('caught_by_check','')) if str(m.get('caught_by_check','')).startswith('partly') else ''
print(' '.join(sorted({c for c in re.findall(r'C[0-9][0-9]', txt) if c != own})))")
  for try in 1 2 3; do
    tools/try_seeded.sh "/verif/$d" "$prop" $extra 2>&1 | grep -E "^SUMMARY|^   C..: " > "$d/${OUT:-recheck.txt}"
    grep -q SUMMARY "$d/${OUT:-recheck.txt}" && break
    sleep $((RANDOM % 5 + 1))
  done
  echo "$1: $(grep SUMMARY $d/${OUT:-recheck.txt} | sed 's/.*clean=/clean=/')"
}
export -f one
ls seeded | grep '^C' | { if [ -n "${ONLY:-}" ]; then grep -E "^($(echo $ONLY | tr ' ' '|'))-"; else cat; fi; } | xargs -P "${PAR:-4}" -I{} bash -c 'one {}'
