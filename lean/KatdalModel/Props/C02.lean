import KatdalModel.Model.Select
open Np Index Select
namespace C02
theorem placeholder : (1 : Nat) = 1 := rfl
end C02
