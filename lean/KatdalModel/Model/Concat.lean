/-
  C19 model: katdal.concatdata.ConcatenatedDataSet bookkeeping — chronological ordering,
  the global time mask split into per-part views, running scan / compscan index offsets and the
  dump-period compatibility test.  (The head-axis index split of ConcatenatedLazyIndexer is in
  Model/LazyIndexer.lean.)
-/
import KatdalModel.Model.LazyIndexer
open Np Index

namespace Concat

/-- parts are (start time, payload); `ConcatenatedDataSet.__init__` sorts them by start time -/
def chrono {α} (parts : List (Int × α)) : List (Int × α) := parts.mergeSort (fun a b => a.1 ≤ b.1)

/-- `_set_keep`: the global time mask handed to part `k` is the slice `[off_k, off_k + len_k)` -/
def splitMask : List Nat → List Bool → List (List Bool)
  | [], _ => []
  | l :: t, m => m.take l :: splitMask t (m.drop l)

/-- differing dump periods are refused -/
def periodsCompatible (ps : List Int) : Bool :=
  match ps with
  | [] => true
  | p :: t => t.all (· == p)

/-- running offsets: part `i`'s scan (compscan) indices are shifted by the number of scans in
    all earlier parts -/
def offsetIndices : List (List Nat × Nat) → Nat → List (List Nat)
  | [], _ => []
  | (idx, k) :: t, off => idx.map (· + off) :: offsetIndices t (off + k)

/-- `idx` is a per-dump index list numbered consecutively from `lo`, using exactly `k` indices -/
def consecutiveFrom (lo k : Nat) : List Nat → Prop
  | [] => k = 0
  | [a] => a = lo + k - 1 ∧ 0 < k ∧ a = lo
  | a :: b :: t => a = lo ∧ ((b = a ∧ consecutiveFrom lo k (b :: t)) ∨ (b = a + 1 ∧ 0 < k ∧ consecutiveFrom (lo + 1) (k - 1) (b :: t)))

end Concat
