import Driver.Common
import KatdalModel.Model.Weights
open Np Drv Weights

/-!
  Line-protocol driver for C15.  Every float travels as the decimal value of its IEEE binary64
  bit pattern (binary32 values are widened exactly by the harness) and is decoded *exactly* to a
  classified rational `Scalar Rat`; results are printed as `nan`, `inf`, `-inf` or `p/q`.
  Lists are comma separated, `-` is the empty list / None.

    c2a <cps>                                   -> ai;i1;i2 | E:KeyError
    wps <div> T F B <ai> <i1> <i2> <vis> <w>    -> weightPowerScale (mirror)
    wspec <div> T F B <cps> <vis> <w>           -> documented kernel through the label lookup
    vfw <scaled> T F B <cps> <re> <im> <w> <wc> <xs> <fs>   -> weights|unscaled|re|im (mirror)
    vfwspec …same…                              -> same by the spec
    kf32 <div> <bits32 triples a1,a2,w,…>       -> bits32 of kernelF32
    kq <div> <f64 triples>                      -> kernelImpl;kernelSpec;flags (all 0 since the repair of C15-inf-autocorr)
    interp <xs> <fs> <x…>                       -> interpS
    exc <nAccs|-> <dump p/q> <cbfdump p/q> <w…> -> A;d;excision values | E:ValueError
    avg T F B timeav chanav flagav <re> <im> <w> <flags>  -> nT,nC,nB|re|im|w|flags (mirror)
    avgspec …same…                              -> same by binSpec
    v3 T F B selected <w|-> <wc|->              -> flat values
-/

def pow2 (k : Nat) : Rat := ((2 ^ k : Nat) : Rat)

/-- exact decoding of a binary64 bit pattern -/
def decodeF64 (n : Nat) : Scalar Rat :=
  let neg : Bool := decide (n / 2 ^ 63 % 2 = 1)
  let e : Nat := n / 2 ^ 52 % 2048
  let m : Nat := n % 2 ^ 52
  if e = 2047 then (if m = 0 then (if neg then .negInf else .posInf) else .nan)
  else
    let mag : Rat :=
      if e = 0 then (m : Rat) / pow2 1074
      else if e ≥ 1075 then ((2 ^ 52 + m : Nat) : Rat) * pow2 (e - 1075)
      else ((2 ^ 52 + m : Nat) : Rat) / pow2 (1075 - e)
    .val (if neg then -mag else mag)

def showRat (q : Rat) : String := s!"{q.num}/{q.den}"

def showScalar : Scalar Rat → String
  | .nan => "nan"
  | .posInf => "inf"
  | .negInf => "-inf"
  | .val q => showRat q

def showScalars (l : List (Scalar Rat)) : String :=
  if l.isEmpty then "-" else ",".intercalate (l.map showScalar)

def parseNats (s : String) : Option (List Nat) :=
  if s = "-" then some [] else (s.splitOn ",").mapM (·.toNat?)

def parseScalars (s : String) : Option (List (Scalar Rat)) := (parseNats s).map (·.map decodeF64)

def parseRat (s : String) : Option Rat :=
  match s.splitOn "/" with
  | [a] => (a.toInt?).map fun (i : Int) => (i : Rat)
  | [a, b] => do
    let i ← a.toInt?
    let d ← b.toNat?
    if d = 0 then none else pure (mkRat i d)
  | _ => none

def parseCps (s : String) : Option (List (String × String)) :=
  if s = "-" then some [] else
  (s.splitOn ",").mapM fun t =>
    match t.splitOn ":" with
    | [a, b] => some (a, b)
    | _ => none

def chunk {α} : Nat → Nat → List α → List (List α)
  | 0, _, _ => []
  | k + 1, n, l => l.take n :: chunk k n (l.drop n)

def toArr3 {α} (T F B : Nat) (l : List α) : Arr3 α := (chunk T (F * B) l).map (chunk F B)
def toArr2 {α} (T F : Nat) (l : List α) : Arr2 α := chunk T F l
def flat3 {α} (a : Arr3 α) : List α := (a.map List.flatten).flatten

def parseBool (s : String) : Option Bool := if s = "1" then some true else if s = "0" then some false else none

def finiteOnly (l : List (Scalar Rat)) : Option (List Rat) :=
  l.mapM fun | .val x => some x | _ => none

def parseTable (xs fs : String) : Option (Option (List (Rat × Rat))) :=
  if xs = "-" then some none else do
    let x ← parseScalars xs
    let f ← parseScalars fs
    let x ← finiteOnly x
    let f ← finiteOnly f
    if x.length ≠ f.length then none else pure (some (x.zip f))

def showVFW (r : Except Err (VFW Rat)) : String :=
  showExcept (fun v =>
    let un := match v.unscaled with
      | none => "none"
      | some u => showScalars (flat3 u)
    let vis := flat3 v.vis
    s!"{showScalars (flat3 v.weights)}|{un}|{showScalars (vis.map (·.re))}|{showScalars (vis.map (·.im))}") r

def runVfw (spec : Bool) (sc T F B cps re im w wc xs fs : String) : String :=
  match parseBool sc, T.toNat?, F.toNat?, B.toNat?, parseScalars re, parseScalars im, parseScalars w,
        parseScalars wc, parseTable xs fs with
  | some sc, some T, some F, some B, some re, some im, some w, some wc, some tbl =>
    let vis : Arr3 (Cx (Scalar Rat)) := toArr3 T F B ((re.zip im).map fun (a, b) => ⟨a, b⟩)
    let w3 := toArr3 T F B w
    let wc2 := toArr2 T F wc
    if cps = "none" then
      if spec then "bad-op" else
      showVFW (chunkStoreVFW (α := String) badWeightRat vis w3 wc2 none sc tbl)
    else
      match parseCps cps with
      | some c =>
        if spec then showVFW (chunkStoreVFWSpec badWeightRat vis w3 wc2 c sc tbl)
        else showVFW (chunkStoreVFW badWeightRat vis w3 wc2 (some c) sc tbl)
      | none => "bad-op"
  | _, _, _, _, _, _, _, _, _ => "bad-op"

def triples {α} : List α → List (α × α × α)
  | a :: b :: c :: t => (a, b, c) :: triples t
  | _ => []

def mkInp (T F B : Nat) (re im w : List Rat) (fl : List Bool) : Nat → Nat → Nat → Sample Rat :=
  let reA := re.toArray
  let imA := im.toArray
  let wA := w.toArray
  let fA := fl.toArray
  fun t f b =>
    let i := (t * F + f) * B + b
    if t < T ∧ f < F ∧ b < B then (⟨reA.getD i 0, imA.getD i 0⟩, wA.getD i 0, fA.getD i false)
    else (⟨0, 0⟩, 0, false)      -- never read (theorem `c15_average_in_range`)

def showAv (r : AvResult Rat) : String :=
  let idx : List (Nat × Nat × Nat) :=
    (List.range r.nT).flatMap fun t => (List.range r.nC).flatMap fun c => (List.range r.nB).map fun b => (t, c, b)
  let vals := idx.map fun (t, c, b) => r.out t c b
  let sh (l : List Rat) := if l.isEmpty then "-" else ",".intercalate (l.map showRat)
  let fl := if vals.isEmpty then "-" else String.ofList (vals.map fun s => if s.2.2 then '1' else '0')
  s!"{r.nT},{r.nC},{r.nB}|{sh (vals.map (·.1.re))}|{sh (vals.map (·.1.im))}|{sh (vals.map (·.2.1))}|{fl}"

/-- spec side of the averager: documented bin values on the bins that fit -/
def averageSpec (nT nC nB : Nat) (inp : Nat → Nat → Nat → Sample Rat) (timeav chanav : Nat) (flagav : Bool) :
    Except Err (AvResult Rat) :=
  let ta := min timeav nT
  if ta = 0 ∨ chanav = 0 then .error .other else
  .ok { nT := nT / ta, nC := nC / chanav, nB := nB,
        out := fun avT avC b => binSpec flagav (binSamples inp (avT * ta) (avC * chanav) ta chanav b) }

def step (line : String) : String :=
  match line.splitOn " " with
  | ["c2a", cps] =>
    match parseCps cps with
    | some c => showExcept (fun (ai, i1, i2) => s!"{showNatList ai};{showNatList i1};{showNatList i2}")
                  (corrprodToAutocorr c)
    | none => "bad-op"
  | ["wps", dv, T, F, B, ai, i1, i2, vis, w] =>
    match parseBool dv, T.toNat?, F.toNat?, B.toNat?, parseNats ai, parseNats i1, parseNats i2,
          parseScalars vis, parseScalars w with
    | some dv, some T, some F, some B, some ai, some i1, some i2, some vis, some w =>
      showExcept (fun o => showScalars (flat3 o))
        (weightPowerScale badWeightRat dv ai i1 i2 (toArr3 T F B vis) (toArr3 T F B w))
    | _, _, _, _, _, _, _, _, _ => "bad-op"
  | ["wspec", dv, T, F, B, cps, vis, w] =>
    match parseBool dv, T.toNat?, F.toNat?, B.toNat?, parseCps cps, parseScalars vis, parseScalars w with
    | some dv, some T, some F, some B, some c, some vis, some w =>
      showExcept (fun o => showScalars (flat3 o))
        (zipME (fun vt wt => zipME (fun vr wr => weightsRowSpec badWeightRat dv c vr wr) vt wt)
          (toArr3 T F B vis) (toArr3 T F B w))
    | _, _, _, _, _, _, _ => "bad-op"
  | ["vfw", sc, T, F, B, cps, re, im, w, wc, xs, fs] => runVfw false sc T F B cps re im w wc xs fs
  | ["vfwspec", sc, T, F, B, cps, re, im, w, wc, xs, fs] => runVfw true sc T F B cps re im w wc xs fs
  | ["kf32", dv, bits] =>
    match parseBool dv, parseNats bits with
    | some dv, some l =>
      let f (n : Nat) : Float32 := Float32.ofBits n.toUInt32
      showNatList ((triples l).map fun (a, b, c) => (kernelF32 dv (f a) (f b) (f c)).toBits.toNat)
    | _, _ => "bad-op"
  | ["kq", dv, vals] =>
    match parseBool dv, parseScalars vals with
    | some dv, some l =>
      let t := triples l
      let a := t.map fun (a, b, c) => kernelImpl badWeightRat dv a b c
      let s := t.map fun (a, b, c) => kernelSpec badWeightRat dv a b c
      let fam := t.map fun (_ : Scalar Rat × Scalar Rat × Scalar Rat) => '0'   -- (no deviating family any more)
      s!"{showScalars a};{showScalars s};{String.ofList fam}"
    | _, _ => "bad-op"
  | ["interp", xs, fs, x] =>
    match parseTable xs fs, parseScalars x with
    | some (some tbl), some x => showExcept showScalars (mapME (interpS tbl) x)
    | some none, some x => showExcept showScalars (mapME (interpS ([] : List (Rat × Rat))) x)
    | _, _ => "bad-op"
  | ["exc", na, dp, cp, w] =>
    match (if na = "-" then some none else (na.toNat?).map some), parseRat dp, parseRat cp, parseScalars w with
    | some na, some dp, some cp, some w =>
      match finiteOnly w with
      | some w =>
        let d := cbfDumpsPerSdpDump dp cp
        let A := match na with
          | some n => accumulationsPerDump n dp cp
          | none => 0
        showExcept (fun o => s!"{A};{d};{",".intercalate ((flat3 o).map showRat)}")
          (excisionOf na dp cp (some [[w]]))
      | none => "bad-op"
    | _, _, _, _ => "bad-op"
  | [op, T, F, B, ta, ca, fa, re, im, w, fl] =>
    if op ≠ "avg" ∧ op ≠ "avgspec" then "bad-op" else
    match T.toNat?, F.toNat?, B.toNat?, ta.toNat?, ca.toNat?, parseBool fa, parseScalars re, parseScalars im,
          parseScalars w, (if fl = "-" then some [] else parseMask fl) with
    | some T, some F, some B, some ta, some ca, some fa, some re, some im, some w, some fl =>
      match finiteOnly re, finiteOnly im, finiteOnly w with
      | some re, some im, some w =>
        let inp := mkInp T F B re im w fl
        if op = "avg" then showExcept showAv (averageVisibilities T F B inp ta ca fa)
        else showExcept showAv (averageSpec T F B inp ta ca fa)
      | _, _, _ => "bad-op"
    | _, _, _, _, _, _, _, _, _, _ => "bad-op"
  | ["v3", T, F, B, sel, w, wc] =>
    match T.toNat?, F.toNat?, B.toNat?, parseBool sel,
          (if w = "-" then some none else (parseScalars w).map some),
          (if wc = "-" then some none else (parseScalars wc).map some) with
    | some T, some F, some B, some sel, some w, some wc =>
      match (match w with | none => some none | some l => (finiteOnly l).map some),
            (match wc with | none => some none | some l => (finiteOnly l).map some) with
      | some w, some wc =>
        let wf : Option (Nat → Nat → Nat → Rat) :=
          w.map fun l => let a := l.toArray; fun t f b => a.getD ((t * F + f) * B + b) (0 : Rat)
        let cf : Option (Nat → Nat → Rat) :=
          wc.map fun l => let a := l.toArray; fun t f => a.getD (t * F + f) (0 : Rat)
        let idx : List (Nat × Nat × Nat) :=
          (List.range T).flatMap fun t => (List.range F).flatMap fun c => (List.range B).map fun b => (t, c, b)
        let vals := idx.map fun (t, f, b) => v3Weights wf cf sel t f b
        if vals.isEmpty then "-" else ",".intercalate (vals.map showRat)
      | _, _ => "bad-op"
    | _, _, _, _, _, _ => "bad-op"
  | _ => "bad-op"

def main : IO Unit := Drv.loop step
