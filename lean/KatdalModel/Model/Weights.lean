/-
  C15 — weights, excision, Van Vleck correction and averaging.

  Executable, Mathlib-free mirror of
    katdal/vis_flags_weights.py  corrprod_to_autocorr, weight_power_scale, _scale_weights,
                                 correct_autocorr_quantisation, ChunkStoreVisFlagsWeights (weights part)
    katdal/visdatav4.py          excision transforms in `_set_keep`
    katdal/averager.py           average_visibilities / _average_visibilities
    katdal/h5datav3.py           `weights` transform
  next to the documented meaning (`…Spec`).

  Floats.  A scalar that is an IEEE float in the code is a `Scalar K`: an explicit classification
  `nan | posInf | negInf | val x` over an arbitrary scalar type `K` (theorems: any linearly ordered
  field; driver: `Rat`, exact).  Rounding is not modelled: the correspondence run compares finite
  values with a tolerance and the classification exactly.  The sign of zero is not modelled
  (`1/(-0.0) = -inf` is classified `posInf`; every use below only asks "finite?").
  `kernelF32` is the same kernel in hardware `Float32` for the special-value grid of the driver.
-/
import KatdalModel.Np.Basic
open Np

namespace Weights

/-! ## 0. small list helpers (structural, so that `decide` evaluates them) -/

/-- `mapM` in `Except`, structurally recursive -/
def mapME {α β} (f : α → Except Err β) : List α → Except Err (List β)
  | [] => .ok []
  | a :: t =>
    match f a with
    | .error e => .error e
    | .ok b =>
      match mapME f t with
      | .error e => .error e
      | .ok r => .ok (b :: r)

/-- `zip`+`mapM` over two lists that must have the same length (numpy would raise on a shape
    mismatch) -/
def zipME {α β γ} (f : α → β → Except Err γ) : List α → List β → Except Err (List γ)
  | [], [] => .ok []
  | a :: t, b :: u =>
    match f a b with
    | .error e => .error e
    | .ok c =>
      match zipME f t u with
      | .error e => .error e
      | .ok r => .ok (c :: r)
  | _, _ => .error .value

abbrev Arr2 (α : Type) := List (List α)
abbrev Arr3 (α : Type) := List (List (List α))

def get3 {α} (a : Arr3 α) (t f b : Nat) : Option α :=
  match a[t]? with
  | none => none
  | some r => match r[f]? with
    | none => none
    | some s => s[b]?

def get2 {α} (a : Arr2 α) (t f : Nat) : Option α :=
  match a[t]? with
  | none => none
  | some r => r[f]?

/-! ## 1. IEEE scalars, classified -/

inductive Scalar (K : Type)
  | nan | posInf | negInf
  | val (x : K)
  deriving DecidableEq, Repr, Inhabited

section scalar
variable {K : Type} [Zero K] [One K] [Mul K] [Div K] [LT K] [DecidableEq K] [DecidableLT K]

def Scalar.isFinite : Scalar K → Bool
  | .val _ => true
  | _ => false

/-- `np.reciprocal` (`1/±0 = ±inf`, sign of zero not modelled; `1/±inf = 0`) -/
def Scalar.recip : Scalar K → Scalar K
  | .nan => .nan
  | .posInf => .val 0
  | .negInf => .val 0
  | .val x => if x = 0 then .posInf else .val (1 / x)

/-- `(±inf) * x` for finite `x` (`pos = true` for `+inf`) -/
def infTimes (pos : Bool) (x : K) : Scalar K :=
  if x = 0 then .nan
  else if (0 : K) < x then (if pos then .posInf else .negInf)
  else (if pos then .negInf else .posInf)

/-- IEEE multiplication on classified scalars -/
def Scalar.mul : Scalar K → Scalar K → Scalar K
  | .nan, _ => .nan
  | _, .nan => .nan
  | .val x, .val y => .val (x * y)
  | .posInf, .posInf => .posInf
  | .negInf, .negInf => .posInf
  | .posInf, .negInf => .negInf
  | .negInf, .posInf => .negInf
  | .posInf, .val x => infTimes true x
  | .val x, .posInf => infTimes true x
  | .negInf, .val x => infTimes false x
  | .val x, .negInf => infTimes false x

/-- `auto_scale[k]`: an autocorrelation that is not finite is replaced by NaN first
    (`if not np.isfinite(autocorr): autocorr = np.nan`, /repo fix for C15-inf-autocorr), then
    `np.reciprocal(autocorr) if divide else autocorr` -/
def Scalar.autoScale (divide : Bool) (a : Scalar K) : Scalar K :=
  let a := if a.isFinite then a else .nan
  if divide then a.recip else a

/-- **scalar kernel of `weight_power_scale`, as coded**:
    `p = scale(a1) * scale(a2)` with `scale = reciprocal` when `divide` (NaN for a non-finite autocorrelation);
    `p` is replaced by `bad` (`2**-32`) when it is not finite; result `p * w`. -/
def kernelImpl (bad : K) (divide : Bool) (a1 a2 w : Scalar K) : Scalar K :=
  let s1 := a1.autoScale divide
  let s2 := a2.autoScale divide
  let p := s1.mul s2
  let p := if p.isFinite then p else .val bad
  p.mul w

/-- "an autocorrelation is zero or not finite" -/
def Scalar.isBadAuto : Scalar K → Bool
  | .val x => decide (x = 0)
  | _ => true

/-- **documented kernel**: when dividing, `w / (a1·a2)`, with the tiny positive weight `bad·w`
    where an autocorrelation is zero or not finite; when multiplying back, `w·a1·a2`, with `bad·w`
    where an autocorrelation is not finite (a zero autocorrelation gives a zero unscaled weight:
    the property's substitution clause is about dividing; katdal's own unit test pins the zero). -/
def kernelSpec (bad : K) (divide : Bool) (a1 a2 w : Scalar K) : Scalar K :=
  if divide then
    match a1, a2 with
    | .val x, .val y =>
      if x = 0 ∨ y = 0 then (Scalar.val bad).mul w else (Scalar.val (1 / (x * y))).mul w
    | _, _ => (Scalar.val bad).mul w
  else
    match a1, a2 with
    | .val x, .val y => (Scalar.val (x * y)).mul w
    | _, _ => (Scalar.val bad).mul w

end scalar

/-- the same kernel in hardware binary32 (driver only; `bad = 2**-32`) -/
def kernelF32 (divide : Bool) (a1 a2 w : Float32) : Float32 :=
  let bad : Float32 := Float32.ofBits 0x2f800000
  let a1 := if a1.isFinite then a1 else a1 - a1       -- NaN (inf - inf, nan - nan)
  let a2 := if a2.isFinite then a2 else a2 - a2
  let s1 := if divide then (1.0 : Float32) / a1 else a1
  let s2 := if divide then (1.0 : Float32) / a2 else a2
  let p := s1 * s2
  let p := if p.isFinite then p else bad
  p * w

def badWeightRat : Rat := 1 / 4294967296

/-! ## 2. `corrprod_to_autocorr` -/

section lookup
variable {α : Type} [DecidableEq α]

/-- `(label, position in corrprods)` of every autocorrelation product, in order of appearance
    (`auto_indices`, with the label that keys `auto_lookup`) -/
def autosFrom : Nat → List (α × α) → List (α × Nat)
  | _, [] => []
  | i, (a, b) :: t => if a = b then (a, i) :: autosFrom (i + 1) t else autosFrom (i + 1) t

/-- `auto_lookup[a]`: the dict is filled in order, so the last autocorrelation with label `a`
    wins; `k` is the index (within `auto_indices`) of the head of the list -/
def lookupFrom (a : α) : Nat → List (α × Nat) → Option Nat
  | _, [] => none
  | k, (l, _) :: t =>
    match lookupFrom a (k + 1) t with
    | some r => some r
    | none => if l = a then some k else none

def lookupKey (autos : List (α × Nat)) (a : α) : Except Err Nat :=
  match lookupFrom a 0 autos with
  | some k => .ok k
  | none => .error .key

/-- `corrprod_to_autocorr(corrprods)` → `(auto_indices, index1, index2)` or `KeyError`.
    (`_narrow` only changes the dtype; the empty product list is rejected by it with a
    ValueError, which the property does not speak about.) -/
def corrprodToAutocorr (cps : List (α × α)) : Except Err (List Nat × List Nat × List Nat) :=
  let autos := autosFrom 0 cps
  match mapME (fun p => lookupKey autos p.1) cps with
  | .error e => .error e
  | .ok i1 =>
    match mapME (fun p => lookupKey autos p.2) cps with
    | .error e => .error e
    | .ok i2 => .ok (autos.map (·.2), i1, i2)

/-- spec side: position of the product `(a, a)` (first occurrence) -/
def autoPos (cps : List (α × α)) (a : α) : Except Err Nat :=
  match cps.findIdx? (fun p => p.1 = a ∧ p.2 = a) with
  | some p => .ok p
  | none => .error .key

end lookup

/-! ## 3. `weight_power_scale`, `_scale_weights` -/

section wps
variable {K : Type} [Zero K] [One K] [Mul K] [Div K] [LT K] [DecidableEq K] [DecidableLT K]

/-- `auto_scale[k] = np.reciprocal(autocorr) if divide else autocorr` for `autocorr = vis[i, j, a].real`
    (NaN in place of a non-finite autocorrelation) -/
def autoScaleAt (divide : Bool) (visRe : List (Scalar K)) (a : Nat) : Except Err (Scalar K) :=
  match getNat visRe a with
  | .error e => .error e
  | .ok v => .ok (v.autoScale divide)

/-- body of the `k` loop: `p = auto_scale[index1[k]] * auto_scale[index2[k]]`, substituted by
    `bad_weight` when not finite, times `weights[i, j, k]` -/
def scaleElem (bad : K) (i1 i2 : List Nat) (wRow autoScale : List (Scalar K)) (k : Nat) : Except Err (Scalar K) :=
  match getNat i1 k, getNat i2 k, getNat wRow k with
  | .ok j1, .ok j2, .ok w =>
    match getNat autoScale j1, getNat autoScale j2 with
    | .ok s1, .ok s2 =>
      let p := s1.mul s2
      let p := if p.isFinite then p else Scalar.val bad
      .ok (p.mul w)
    | _, _ => .error .index
  | _, _, _ => .error .index

/-- body of the `(i, j)` loop of `weight_power_scale` for one time-frequency sample:
    `visRe` = real parts of all `B` products, `wRow` their weights.
    numba does not bounds-check; an index outside its array is an `IndexError` here and the
    theorems show that it cannot happen with the output of `corrprodToAutocorr`. -/
def scaleRow (bad : K) (divide : Bool) (ai i1 i2 : List Nat) (visRe wRow : List (Scalar K)) :
    Except Err (List (Scalar K)) :=
  match mapME (autoScaleAt divide visRe) ai with
  | .error e => .error e
  | .ok autoScale => mapME (scaleElem bad i1 i2 wRow autoScale) (List.range visRe.length)

/-- `weight_power_scale(vis, weights, auto_indices, index1, index2, divide=…)` on `(T, F, B)` arrays -/
def weightPowerScale (bad : K) (divide : Bool) (ai i1 i2 : List Nat) (visRe w : Arr3 (Scalar K)) :
    Except Err (Arr3 (Scalar K)) :=
  zipME (fun vt wt => zipME (fun vr wr => scaleRow bad divide ai i1 i2 vr wr) vt wt) visRe w

/-- a dask array row stored as chunks along the baseline axis; `rechunk({2: B})` joins them -/
def rechunkRow {α} (chunks : List (List α)) : List α := chunks.flatten

/-- cut a row into baseline chunks of the given sizes -/
def splitBy {α} : List Nat → List α → List (List α)
  | [], _ => []
  | n :: ns, l => l.take n :: splitBy ns (l.drop n)

/-- `_scale_weights` on one time-frequency sample of baseline-chunked dask arrays: both arrays
    are rechunked to a single baseline chunk, the lookup is the global one -/
def scaleRowChunked {α} [DecidableEq α] (bad : K) (divide : Bool) (cps : List (α × α))
    (visChunks wChunks : List (List (Scalar K))) : Except Err (List (Scalar K)) :=
  match corrprodToAutocorr cps with
  | .error e => .error e
  | .ok (ai, i1, i2) => scaleRow bad divide ai i1 i2 (rechunkRow visChunks) (rechunkRow wChunks)

/-- spec of one element: documented kernel on the autocorrelations found by label -/
def weightsElemSpec {α} [DecidableEq α] (bad : K) (divide : Bool) (cps : List (α × α))
    (visRe : List (Scalar K)) (p : α × α) (w : Scalar K) : Except Err (Scalar K) :=
  match autoPos cps p.1, autoPos cps p.2 with
  | .ok p1, .ok p2 =>
    match getNat visRe p1, getNat visRe p2 with
    | .ok a1, .ok a2 => .ok (kernelSpec bad divide a1 a2 w)
    | _, _ => .error .index
  | _, _ => .error .key

/-- spec of one sample -/
def weightsRowSpec {α} [DecidableEq α] (bad : K) (divide : Bool) (cps : List (α × α))
    (visRe wRow : List (Scalar K)) : Except Err (List (Scalar K)) :=
  zipME (weightsElemSpec bad divide cps visRe) cps wRow

end wps

/-! ## 4. Van Vleck correction (`np.interp` on the real part of autocorrelations only) -/

structure Cx (K : Type) where
  re : K
  im : K
  deriving DecidableEq, Repr, Inhabited

section interp
variable {K : Type} [Zero K] [Add K] [Sub K] [Mul K] [Div K] [LT K] [LE K] [DecidableLT K] [DecidableLE K]

/-- `np.interp` right of the first table point `p0` (invariant: `p0.1 ≤ x`) -/
def interpAux (x : K) : K × K → List (K × K) → K
  | p0, [] => p0.2
  | p0, p1 :: rest =>
    if x < p1.1 then p0.2 + (p1.2 - p0.2) / (p1.1 - p0.1) * (x - p0.1)
    else interpAux x p1 rest

/-- `np.interp(x, xp, fp)` for finite `x`, table `[(xp[i], fp[i])]` with increasing `xp`
    (numpy rejects the empty table with ValueError) -/
def interp (x : K) : List (K × K) → Except Err K
  | [] => .error .value
  | p0 :: rest => .ok (if x ≤ p0.1 then p0.2 else interpAux x p0 rest)

def lastFp : K × K → List (K × K) → K
  | p0, [] => p0.2
  | _, p1 :: rest => lastFp p1 rest

/-- `np.interp` on a classified scalar: NaN stays NaN, ±inf clip to the table ends -/
def interpS (tbl : List (K × K)) : Scalar K → Except Err (Scalar K)
  | .nan => match tbl with
    | [] => .error .value
    | _ => .ok .nan
  | .posInf => match tbl with
    | [] => .error .value
    | p0 :: rest => .ok (.val (lastFp p0 rest))
  | .negInf => match tbl with
    | [] => .error .value
    | p0 :: _ => .ok (.val p0.2)
  | .val x => match interp x tbl with
    | .error e => .error e
    | .ok y => .ok (.val y)

/-- `out = vis.copy(); out[..., auto_indices] = np.interp(vis[..., auto_indices].real, …)` on one
    sample: values are read from the original row, the assignment of a real array to complex
    elements sets the imaginary part to zero -/
def vanVleckApply (tbl : List (K × K)) (row : List (Cx (Scalar K))) :
    List Nat → List (Cx (Scalar K)) → Except Err (List (Cx (Scalar K)))
  | [], out => .ok out
  | p :: ps, out =>
    match row[p]? with
    | none => .error .index
    | some v =>
      match interpS tbl v.re with
      | .error e => .error e
      | .ok y => vanVleckApply tbl row ps (out.set p ⟨y, .val 0⟩)

def vanVleckRow (tbl : List (K × K)) (ai : List Nat) (row : List (Cx (Scalar K))) :
    Except Err (List (Cx (Scalar K))) :=
  vanVleckApply tbl row ai row

/-- `correct_autocorr_quantisation(vis, corrprods)` -/
def correctAutocorrQuantisation {α} [DecidableEq α] (tbl : List (K × K)) (cps : List (α × α))
    (vis : Arr3 (Cx (Scalar K))) : Except Err (Arr3 (Cx (Scalar K))) :=
  match corrprodToAutocorr cps with
  | .error e => .error e
  | .ok (ai, _, _) => mapME (fun vt => mapME (fun row => vanVleckRow tbl ai row) vt) vis

/-- spec of the correction on one product: equal inputs ⇒ interpolated real part (and no imaginary
    part), every other product is untouched -/
def vanVleckElemSpec {α} [DecidableEq α] (tbl : List (K × K)) (p : α × α) (v : Cx (Scalar K)) :
    Except Err (Cx (Scalar K)) :=
  if p.1 = p.2 then
    match interpS tbl v.re with
    | .error e => .error e
    | .ok y => .ok ⟨y, .val 0⟩
  else .ok v

def vanVleckRowSpec {α} [DecidableEq α] (tbl : List (K × K)) (cps : List (α × α))
    (row : List (Cx (Scalar K))) : Except Err (List (Cx (Scalar K))) :=
  zipME (vanVleckElemSpec tbl) cps row

end interp

/-! ## 5. `ChunkStoreVisFlagsWeights`: stored, scaled and unscaled weights -/

section vfw
variable {K : Type} [Zero K] [One K] [Add K] [Sub K] [Mul K] [Div K] [LT K] [LE K] [DecidableEq K]
  [DecidableLT K] [DecidableLE K]

/-- `darray['weights'] * darray['weights_channel'][..., np.newaxis]` -/
def storedWeights (w : Arr3 (Scalar K)) (wc : Arr2 (Scalar K)) : Except Err (Arr3 (Scalar K)) :=
  zipME (fun wt ct => zipME (fun row c => .ok (row.map (fun x => x.mul c))) wt ct) w wc

structure VFW (K : Type) where
  vis : Arr3 (Cx (Scalar K))
  weights : Arr3 (Scalar K)
  unscaled : Option (Arr3 (Scalar K))

def reParts (vis : Arr3 (Cx (Scalar K))) : Arr3 (Scalar K) := vis.map (·.map (·.map (·.re)))

/-- `_scale_weights(vis, weights, corrprods, divide)` -/
def scaleWeights {α} [DecidableEq α] (bad : K) (divide : Bool) (cps : List (α × α))
    (vis : Arr3 (Cx (Scalar K))) (w : Arr3 (Scalar K)) : Except Err (Arr3 (Scalar K)) :=
  match corrprodToAutocorr cps with
  | .error e => .error e
  | .ok (ai, i1, i2) => weightPowerScale bad divide ai i1 i2 (reParts vis) w

/-- the weights part of `ChunkStoreVisFlagsWeights.__init__`:
    `vanVleck = some table` for `van_vleck='autocorr'`, `none` for `'off'` -/
def chunkStoreVFW {α} [DecidableEq α] (bad : K) (vis : Arr3 (Cx (Scalar K))) (w : Arr3 (Scalar K))
    (wc : Arr2 (Scalar K)) (cps : Option (List (α × α))) (storedWeightsAreScaled : Bool)
    (vanVleck : Option (List (K × K))) : Except Err (VFW K) :=
  let visE : Except Err (Arr3 (Cx (Scalar K))) :=
    match vanVleck with
    | none => .ok vis
    | some tbl =>
      match cps with
      | none => .error .type          -- `len(None)`
      | some c => correctAutocorrQuantisation tbl c vis
  match visE with
  | .error e => .error e
  | .ok vis' =>
    match storedWeights w wc with
    | .error e => .error e
    | .ok stored =>
      match cps with
      | some c =>
        if storedWeightsAreScaled then
          match scaleWeights bad false c vis' stored with
          | .error e => .error e
          | .ok un => .ok ⟨vis', stored, some un⟩
        else
          match scaleWeights bad true c vis' stored with
          | .error e => .error e
          | .ok sc => .ok ⟨vis', sc, some stored⟩
      | none =>
        if storedWeightsAreScaled then .ok ⟨vis', stored, none⟩ else .error .value

/-- documented reconstruction: `stored = weights·weights_channel`; the stream declares unscaled
    stored weights (`storedWeightsAreScaled = false`) ⇒ `weights = stored / (a1·a2)` (documented
    kernel) and `unscaled = stored`; otherwise `weights = stored` and `unscaled = stored·a1·a2`;
    the autocorrelations are the Van Vleck corrected ones when the correction is on -/
def chunkStoreVFWSpec {α} [DecidableEq α] (bad : K) (vis : Arr3 (Cx (Scalar K))) (w : Arr3 (Scalar K))
    (wc : Arr2 (Scalar K)) (cps : List (α × α)) (storedWeightsAreScaled : Bool)
    (vanVleck : Option (List (K × K))) : Except Err (VFW K) :=
  let visE : Except Err (Arr3 (Cx (Scalar K))) :=
    match vanVleck with
    | none => .ok vis
    | some tbl => mapME (fun vt => mapME (fun row => vanVleckRowSpec tbl cps row) vt) vis
  match visE with
  | .error e => .error e
  | .ok vis' =>
    match storedWeights w wc with
    | .error e => .error e
    | .ok stored =>
      match zipME (fun vt wt => zipME (fun vr wr =>
          weightsRowSpec bad (!storedWeightsAreScaled) cps (vr.map (·.re)) wr) vt wt) vis' stored with
      | .error e => .error e
      | .ok other =>
        if storedWeightsAreScaled then .ok ⟨vis', stored, some other⟩
        else .ok ⟨vis', other, some stored⟩

end vfw

/-! ## 6. excision (`visdatav4._set_keep`), exact rationals -/

/-- numpy / Python `round`: nearest integer, ties to even -/
def roundHalfEven (x : Rat) : Int :=
  let f := (x + 1 / 2).floor
  if ((f : Rat) = x + 1 / 2) ∧ f % 2 ≠ 0 then f - 1 else f

/-- `cbf_dumps_per_sdp_dump = round(dump_period / cbf_dump_period)` and
    `accumulations_per_dump = n_accs * cbf_dumps_per_sdp_dump` -/
def cbfDumpsPerSdpDump (dumpPeriod cbfDumpPeriod : Rat) : Int := roundHalfEven (dumpPeriod / cbfDumpPeriod)

def accumulationsPerDump (nAccs : Nat) (dumpPeriod cbfDumpPeriod : Rat) : Int :=
  nAccs * cbfDumpsPerSdpDump dumpPeriod cbfDumpPeriod

/-- `integer_cbf_dumps(w) = round(w / accs_per_cbf_dump) * accs_per_cbf_dump` -/
def integerCbfDumps (accsPerCbfDump w : Rat) : Rat := (roundHalfEven (w / accsPerCbfDump) : Rat) * accsPerCbfDump

/-- `excision_fraction(w) = (accs_per_sdp_dump - w) / accs_per_sdp_dump` -/
def excisionFraction (accsPerSdpDump w : Rat) : Rat := (accsPerSdpDump - w) / accsPerSdpDump

/-- the excision indexer's transform chain applied to one unscaled weight -/
def excision (accsPerSdpDump : Rat) (cbfDumps : Int) (w : Rat) : Rat :=
  let accsPerCbfDump := accsPerSdpDump / (cbfDumps : Rat)
  excisionFraction accsPerSdpDump (integerCbfDumps accsPerCbfDump w)

/-- `d.excision`: unavailable (ValueError) without unscaled weights or CBF attributes -/
def excisionOf (nAccs : Option Nat) (dumpPeriod cbfDumpPeriod : Rat) (unscaled : Option (Arr3 Rat)) :
    Except Err (Arr3 Rat) :=
  match unscaled, nAccs with
  | some u, some n =>
    let d := cbfDumpsPerSdpDump dumpPeriod cbfDumpPeriod
    let A : Rat := ((n : Int) * d : Int)
    .ok (u.map (·.map (·.map (excision A d))))
  | _, _ => .error .value

/-! ## 7. `average_visibilities` -/

section avg
variable {K : Type} [Zero K] [One K] [Add K] [Mul K] [Div K] [NatCast K] [DecidableEq K]

/-- accumulators of one averaging bin -/
structure Acc (K : Type) where
  vsum : Cx K
  vwsum : Cx K
  wsum : K
  fany : Bool
  fall : Bool

abbrev Sample (K : Type) := Cx K × K × Bool

def acc0 : Acc K := ⟨⟨0, 0⟩, ⟨0, 0⟩, 0, false, true⟩

/-- innermost loop body of `_average_visibilities` -/
def accStep (acc : Acc K) (s : Sample K) : Acc K :=
  let v := s.1
  let f := s.2.2
  let w := if f then 0 else s.2.1
  { vsum := ⟨acc.vsum.re + v.re, acc.vsum.im + v.im⟩,
    vwsum := ⟨acc.vwsum.re + w * v.re, acc.vwsum.im + w * v.im⟩,
    wsum := acc.wsum + w,
    fany := acc.fany || f,
    fall := acc.fall && f }

/-- per-bin epilogue -/
def binOut (flagav : Bool) (scale : K) (acc : Acc K) : Sample K :=
  let w := acc.wsum
  let v : Cx K := if w = 0 then ⟨acc.vsum.re * scale, acc.vsum.im * scale⟩
    else ⟨acc.vwsum.re / w, acc.vwsum.im / w⟩
  (v, w, if flagav then acc.fany else acc.fall)

structure AvResult (K : Type) where
  nT : Nat
  nC : Nat
  nB : Nat
  out : Nat → Nat → Nat → Sample K

/-- `average_visibilities(vis, weight, flag, …, timeav, chanav, flagav)` (data outputs) on
    `(nT, nC, nB)` inputs given as a function of the coordinates.  As coded: `timeav` is clamped
    to the number of dumps, `chanav` is **not** clamped (the line that should do it clamps
    `flagav` instead, which changes nothing observable), a zero factor (or an empty time axis)
    is a ZeroDivisionError. -/
def averageVisibilities (nT nC nB : Nat) (inp : Nat → Nat → Nat → Sample K)
    (timeav chanav : Nat) (flagav : Bool) : Except Err (AvResult K) :=
  let timeav := min timeav nT
  let flagav := if nC = 0 then false else flagav      -- `flagav = min(flagav, n_chans)` [sic]
  if timeav = 0 ∨ chanav = 0 then .error .other
  else
    let nT' := nT / timeav * timeav
    let nC' := nC / chanav * chanav
    let scale : K := 1 / ((timeav * chanav : Nat) : K)
    .ok { nT := nT' / timeav, nC := nC' / chanav, nB := nB,
          out := fun avT avC b =>
            let tstart := avT * timeav
            let cstart := avC * chanav
            let acc := (List.range timeav).foldl (fun acc dt =>
              (List.range chanav).foldl (fun acc dc =>
                accStep acc (inp (tstart + dt) (cstart + dc) b)) acc) acc0
            binOut flagav scale acc }

/-- left-to-right sum -/
def sumK (l : List K) : K := l.foldl (· + ·) 0

/-- the samples of one bin, time-major -/
def binSamples (inp : Nat → Nat → Nat → Sample K) (tstart cstart timeav chanav b : Nat) : List (Sample K) :=
  (List.range timeav).flatMap fun dt => (List.range chanav).map fun dc => inp (tstart + dt) (cstart + dc) b

/-- **documented bin value**: weighted mean of the unflagged samples (plain mean of all samples
    when their weights sum to zero, in particular when all are flagged), summed unflagged
    weights, AND (or OR) of the flags -/
def binSpec (flagav : Bool) (samples : List (Sample K)) : Sample K :=
  let unfl := samples.filter (fun s => !s.2.2)
  let W := sumK (unfl.map (·.2.1))
  let n : K := ((samples.length : Nat) : K)
  let v : Cx K :=
    if W = 0 then ⟨sumK (samples.map (·.1.re)) * (1 / n), sumK (samples.map (·.1.im)) * (1 / n)⟩
    else ⟨sumK (unfl.map (fun s => s.2.1 * s.1.re)) / W, sumK (unfl.map (fun s => s.2.1 * s.1.im)) / W⟩
  (v, W, if flagav then samples.any (·.2.2) else samples.all (·.2.2))

end avg

/-! ## 8. HDF5 v3 weights -/

section v3
variable {K : Type} [One K] [Mul K]

/-- `H5DataV3.weights[t, f, b]`: absent datasets are dummy datasets filled with 1.0; when no
    weight type is selected the transform returns ones -/
def v3Weights (w : Option (Nat → Nat → Nat → K)) (wc : Option (Nat → Nat → K)) (selected : Bool)
    (t f b : Nat) : K :=
  let lo := match w with
    | some g => g t f b
    | none => 1
  let hi := match wc with
    | some g => g t f
    | none => 1
  if selected then lo * hi else 1

end v3

end Weights
