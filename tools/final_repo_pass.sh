#!/bin/bash
# Final confirmation pass, to the letter of the brief: for every kept seeded change apply it to /repo itself
# (git -C /repo apply), run the check(s), and undo it straight afterwards (git -C /repo checkout -- .).
# Writes seeded/<id>/repo_run.txt.  Only run when nothing else uses /repo's working tree.
cd /verif || exit 2
for d in seeded/C*/; do
  id=$(basename "$d")
  [ -f "$d/repo_run.txt" ] && [ -z "${FORCE:-}" ] && continue
  prop=$(python3 -c "import json;print(json.load(open('$d/meta.json'))['breaks_property'])")
  extra=""
  case "$id" in C04-4) extra="C06 C07 C17";; C14-3) extra="C13";; esac
  MODE=repo tools/try_seeded.sh "/verif/$d" "$prop" $extra 2>&1 | grep -E "^SUMMARY|^   C..: " > "$d/repo_run.txt"
  git -C /repo diff --quiet || { echo "REPO DIRTY after $id"; git -C /repo checkout -- .; }
  echo "$id: $(grep SUMMARY $d/repo_run.txt | sed 's/.*checks=//')"
done
