/-
  C11 lemmas, part 5: the effect of `add` on the per-dump list.
-/
import KatdalModel.Lemmas.CatWF
open Np

namespace Categorical

set_option linter.unusedSimpArgs false
set_option linter.unusedSectionVars false

variable {V : Type} [DecidableEq V]

theorem expandFrom_append {α : Type} (N : Nat) : ∀ (X : List (α × Nat)) (a : Nat) (cur y : α) (d : Nat) (Y : List (α × Nat)),
    expandFrom N a cur (X ++ (y, d) :: Y) = expandFrom d a cur X ++ expandFrom N d y Y := by
  intro X
  induction X with
  | nil => intro a cur y d Y; simp [expandFrom]
  | cons p t ih =>
    intro a cur y d Y
    obtain ⟨x, dx⟩ := p
    simp only [List.cons_append, expandFrom, ih, List.append_assoc]

/-- the per-dump list of indices, as written-out (index, start) pairs -/
theorem perDumpIdx_pairs (c : Cat V) (hlen : c.ev.length = c.idx.length + 1) :
    c.perDumpIdx = expandFrom c.numDumps 0 none (List.zip (c.idx.map some) c.ev.dropLast) := by
  cases hidx : c.idx with
  | nil =>
    cases hev : c.ev with
    | nil => rw [hev, hidx] at hlen; simp at hlen
    | cons n t =>
      have : t = [] := by rw [hev, hidx] at hlen; simpa using hlen
      subst this
      simp [Cat.perDumpIdx, hidx, hev, expand, expandFrom, Cat.numDumps, List.getLastD]
  | cons i0 is =>
    cases hev : c.ev with
    | nil => rw [hev, hidx] at hlen; simp at hlen
    | cons e0 et =>
      have hetl : et.length = is.length + 1 := by rw [hev, hidx] at hlen; simpa using hlen
      have hetne : et ≠ [] := by intro h0; rw [h0] at hetl; simp at hetl
      have hN : c.numDumps = et.getLast hetne := by
        simp only [Cat.numDumps, hev]
        cases et with
        | nil => exact absurd rfl hetne
        | cons b u =>
          rw [getLastD_cons_cons, List.getLastD_eq_getLast?, List.getLast?_eq_some_getLast (by simp)]
          rfl
      have het : et = et.dropLast ++ [c.numDumps] := by
        rw [hN]; exact (List.dropLast_concat_getLast hetne).symm
      have hdl : (e0 :: et).dropLast = e0 :: et.dropLast := by
        cases et with
        | nil => exact absurd rfl hetne
        | cons b u => simp [List.dropLast]
      simp only [Cat.perDumpIdx, hidx, hev, List.headD_cons, List.map_cons, hdl, List.zip_cons_cons, expandFrom,
        Nat.sub_zero]
      congr 1
      have := expand_eq_expandFrom c.numDumps (List.zip (is.map some) et.dropLast) e0 (some i0)
      rw [List.map_fst_zip (by simp; omega), List.map_snd_zip (by simp; omega)] at this
      rw [← this, ← het]

theorem expandFrom_length {α : Type} (N : Nat) : ∀ (Q : List (α × Nat)) (a : Nat) (cur : α),
    (a :: Q.map (·.2)).Pairwise (· ≤ ·) → (∀ q ∈ Q, q.2 ≤ N) → a ≤ N →
    (expandFrom N a cur Q).length = N - a := by
  intro Q
  induction Q with
  | nil => intro a cur _ _ _; simp [expandFrom]
  | cons p t ih =>
    intro a cur hs hN haN
    obtain ⟨y, d⟩ := p
    have hs' := List.pairwise_cons.mp hs
    have had : a ≤ d := hs'.1 d (by simp)
    have hdN : d ≤ N := hN (y, d) (List.mem_cons_self ..)
    simp only [expandFrom, List.length_append, List.length_replicate]
    rw [ih d y (by simpa using hs'.2) (fun q hq => hN q (List.mem_cons_of_mem _ hq)) hdN]
    omega

/-- first pair starting after `e` in a list sorted strictly by start -/
theorem filter_gt_head {α : Type} (e : Nat) : ∀ (Q : List (α × Nat)) (cur w : α) (d : Nat) (G : List (α × Nat)),
    (Q.map (·.2)).Pairwise (· < ·) → Q.filter (fun q => decide (e < q.2)) = (w, d) :: G →
    curAt cur Q d = w ∧ Q.filter (fun q => decide (d < q.2)) = G ∧ e < d := by
  intro Q
  induction Q with
  | nil => intro cur w d G _ h; simp at h
  | cons p t ih =>
    intro cur w d G hs h
    obtain ⟨y, dy⟩ := p
    have hs' := List.pairwise_cons.mp (by simpa using hs : (dy :: t.map (·.2)).Pairwise (· < ·))
    have hgt : ∀ q ∈ t, dy < q.2 := fun q hq => hs'.1 q.2 (List.mem_map_of_mem hq)
    by_cases hdy : e < dy
    · have hall : t.filter (fun q => decide (e < q.2)) = t :=
        filter_all _ t (fun q hq => by have := hgt q hq; simp only [decide_eq_true_eq]; omega)
      simp only [List.filter_cons, hdy, decide_true, if_true, hall, List.cons.injEq, Prod.mk.injEq] at h
      obtain ⟨⟨rfl, rfl⟩, rfl⟩ := h
      refine ⟨?_, ?_, hdy⟩
      · simp only [curAt, Nat.le_refl, if_true]
        exact curAt_of_gt y t dy hgt
      · have hn : ¬ dy < dy := Nat.lt_irrefl _
        simp only [List.filter_cons, hn, decide_false, Bool.false_eq_true, if_false]
        exact filter_all _ t (fun q hq => by have := hgt q hq; simpa using this)
    · simp only [List.filter_cons, hdy, decide_false, Bool.false_eq_true, if_false] at h
      obtain ⟨h1, h2, h3⟩ := ih y w d G hs'.2 h
      have hdyd : dy ≤ d := by omega
      have hn : ¬ d < dy := by omega
      refine ⟨by simp only [curAt, hdyd, if_true]; exact h1, ?_, h3⟩
      simp only [List.filter_cons, hn, decide_false, Bool.false_eq_true, if_false]
      exact h2

/-- **inserting / overriding a pair at start `e`** overrides the written-out list on `[e, nxt)`,
    `nxt` being the next start after `e` (or the end) -/
theorem insert_expand {α : Type} (N : Nat) (Q : List (α × Nat)) (hs : (Q.map (·.2)).Pairwise (· < ·))
    (hQN : ∀ q ∈ Q, q.2 < N) (cur v : α) (e : Nat) (he : e < N) :
    expandFrom N 0 cur (Q.filter (fun q => decide (q.2 < e)) ++ (v, e) :: Q.filter (fun q => decide (e < q.2))) =
      (expandFrom N 0 cur Q).take e ++
        List.replicate (((Q.filter (fun q => decide (e < q.2))).map (·.2)).headD N - e) v ++
        (expandFrom N 0 cur Q).drop (((Q.filter (fun q => decide (e < q.2))).map (·.2)).headD N) := by
  have hsle : (0 :: Q.map (·.2)).Pairwise (· ≤ ·) :=
    List.pairwise_cons.mpr ⟨fun _ _ => Nat.zero_le _, hs.imp (fun h => Nat.le_of_lt h)⟩
  rw [expandFrom_append]
  have htake := take_expandFrom N Q 0 cur e hsle (Nat.zero_le _) (Nat.le_of_lt he)
  simp only [Nat.sub_zero] at htake
  rw [← htake, List.append_assoc]
  congr 1
  cases hG : Q.filter (fun q => decide (e < q.2)) with
  | nil =>
    have hlen := expandFrom_length N Q 0 cur hsle (fun q hq => Nat.le_of_lt (hQN q hq)) (Nat.zero_le _)
    simp only [List.map_nil, List.headD_nil, expandFrom]
    rw [List.drop_of_length_le (by omega)]
    simp
  | cons p G =>
    obtain ⟨w, d⟩ := p
    obtain ⟨h1, h2, _⟩ := filter_gt_head e Q cur w d G hs hG
    have hdrop := drop_expandFrom N Q 0 cur d hsle (Nat.zero_le _)
    simp only [Nat.sub_zero] at hdrop
    simp only [List.map_cons, List.headD_cons, expandFrom]
    rw [hdrop, h1, h2]

/-! ### the positions used by `add` are those filters -/

theorem takeWhile_snoc_not {α : Type} (p : α → Bool) (n : α) (hn : p n = false) : ∀ (A : List α),
    ((A ++ [n]).takeWhile p).length = (A.takeWhile p).length := by
  intro A
  induction A with
  | nil => simp [List.takeWhile, hn]
  | cons a t ih =>
    simp only [List.cons_append, List.takeWhile_cons]
    split
    · simp [ih]
    · rfl

/-- in a list sorted strictly by start: the pairs before `e` are a prefix, the pairs after `e`
    the suffix that follows it (skipping a pair that starts exactly at `e`) -/
theorem sorted_take_drop {α : Type} (e : Nat) : ∀ (L : List (α × Nat)), (L.map (·.2)).Pairwise (· < ·) →
    let k := ((L.map (·.2)).takeWhile (fun x => decide (x < e))).length
    L.take k = L.filter (fun q => decide (q.2 < e)) ∧
    L.drop (if (L.map (·.2))[k]? = some e then k + 1 else k) = L.filter (fun q => decide (e < q.2)) := by
  intro L
  induction L with
  | nil => intro _; simp
  | cons p t ih =>
    intro hs
    obtain ⟨y, d⟩ := p
    have hs' := List.pairwise_cons.mp (by simpa using hs : (d :: t.map (·.2)).Pairwise (· < ·))
    have hgt : ∀ q ∈ t, d < q.2 := fun q hq => hs'.1 q.2 (List.mem_map_of_mem hq)
    by_cases hde : d < e
    · obtain ⟨ih1, ih2⟩ := ih hs'.2
      have hn : ¬ e < d := by omega
      simp only [List.map_cons, List.takeWhile_cons, hde, decide_true, if_true, List.length_cons, List.take_succ_cons,
        List.filter_cons, hn, decide_false, Bool.false_eq_true, if_false, List.getElem?_cons_succ]
      refine ⟨by rw [ih1], ?_⟩
      split
      · rename_i hh
        simp only [hh, if_true] at ih2
        simpa using ih2
      · rename_i hh
        simp only [hh, if_false] at ih2
        simpa using ih2
    · have hnone : t.filter (fun q => decide (q.2 < e)) = [] :=
        filter_none _ t (fun q hq => by have := hgt q hq; simp only [decide_eq_false_iff_not]; omega)
      simp only [List.map_cons, List.takeWhile_cons, hde, decide_false, Bool.false_eq_true, if_false, List.length_nil,
        List.take_zero, List.filter_cons, hnone, List.getElem?_cons_zero, Option.some.injEq]
      refine ⟨trivial, ?_⟩
      by_cases hed : d = e
      · subst hed
        have hn : ¬ d < d := Nat.lt_irrefl _
        simp only [if_true, hn, decide_false, Bool.false_eq_true, if_false, Nat.zero_add, List.drop_succ_cons,
          List.drop_zero]
        exact (filter_all _ t (fun q hq => by have := hgt q hq; simpa using this)).symm
      · have hlt : e < d := by omega
        simp only [hed, if_false, List.drop_zero, hlt, decide_true, if_true]
        congr 1
        exact (filter_all _ t (fun q hq => by have := hgt q hq; simp only [decide_eq_true_eq]; omega)).symm

end Categorical
