#!/venv/bin/python
"""Archive the confirmed seeded changes of the fourth round under seeded/<id>/ (see archive_round2.py)."""
import sys, os
sys.path.insert(0, os.path.dirname(os.path.abspath(__file__)))
import archive_round2 as a

S = 'yes (after strengthening: %s)'
T = [
 ('/tmp/mut4/C01/1', 'C01-9', 'C01', S % 'strided time slices on every format (also caught by C05 and C19)', 'a v1 file with at least two scans and a time slice with step >= 3 crossing a scan boundary out of phase', 'VIOLATION (timestamps / vis of other dumps)'),
 ('/tmp/mut4/C01/2', 'C01-10', 'C01', S % 'v2 files whose centre frequency changes during the observation', 'a v2 file with two spectral windows whose first frequency is not the lowest', 'VIOLATION (freqs of the other window)'),
 ('/tmp/mut4/C01/3', 'C01-11', 'C01', S % 'per-dump sensors compared inside and after scans()', 'iterating scans() / compscans() to at least the second scan, then reading a per-dump sensor', 'VIOLATION (sensor does not follow the exposed dumps)'),
 ('/tmp/mut4/C02/1', 'C02-9', 'C02', 'yes', 'a mixed ants list whose ~name comes last, on a subarray with at least 3 antennas', 'VIOLATION'),
 ('/tmp/mut4/C02/2', 'C02-10', 'C02', S % 'lower-sideband spectral windows (frequency falling with channel index)', 'freqrange on a lower-sideband window', 'VIOLATION'),
 ('/tmp/mut4/C02/3', 'C02-11', 'C02', 'yes', 'a boolean corrprods mask after another product criterion in keyword order, or with reset=""', 'VIOLATION'),
 ('/tmp/mut4/C03/1', 'C03-9', 'C03', S % 'a real-reader stream: v1 files with more than ten compound scans (also caught by C01)', 'a v1 file with at least 11 compound scans (or 11 scans in one compound scan)', 'VIOLATION (dumps not in time order)'),
 ('/tmp/mut4/C03/2', 'C03-10', 'C03', S % 'a real-reader stream: concatenated v4 data sets whose junctions repeat the state (also caught by C19)', 'a concatenated data set whose earlier part ends in the state the later part starts in', 'VIOLATION (yielded state is not that of the dumps / IndexError)'),
 ('/tmp/mut4/C03/3', 'C03-11', 'C03', S % 'a real-reader stream: three or more concatenated v4 data sets (also caught by C19)', 'three or more concatenated data sets (scan indices)', 'VIOLATION'),
 ('/tmp/mut4/C04/1', 'C04-9', 'C04', 'yes', 'an integer on a short axis followed by an evenly spaced list / contiguous mask on a longer axis', 'VIOLATION'),
 ('/tmp/mut4/C04/2', 'C04-10', 'C04', S % 'joint fetch of indexers with different shapes and an end-relative index', 'a joint get() of indexers whose indexed axes differ in length with an index relative to the end of an axis', 'VIOLATION (joint get() differs from one-by-one retrieval)'),
 ('/tmp/mut4/C04/3', 'C04-11', 'C04', S % 'a lazy array restricted to a window empty on its first axis reads nothing (also caught by C06 and C07)', 'get_dask_array(index=...) with a window empty on some axes only', 'VIOLATION'),
 ('/tmp/mut4/C05/1', 'C05-9', 'C05', 'yes', 'a non-identity transform chain and a second-stage index with an integer on every axis', 'VIOLATION'),
 ('/tmp/mut4/C05/2', 'C05-10', 'C05', 'yes', 'a list with a negative entry on a non-first axis without first stage, axis 0 shorter than that axis', 'VIOLATION'),
 ('/tmp/mut4/C05/3', 'C05-11', 'C05', 'yes', 'an empty head slice whose start is 0 or the first row of a part', 'VIOLATION'),
 ('/tmp/mut4/C06/1', 'C06-9', 'C06', S % 'an attached flags stream with its own missing chunks, in the current and the older chunk_info layout', 'an attached flags stream whose chunk_info has no prefix item', 'VIOLATION'),
 ('/tmp/mut4/C06/2', 'C06-10', 'C06', S % 'opening through the RDB file with the chunk store inferred, array directories removed when every chunk is gone', 'a data set opened by its RDB file with every correlator_data chunk absent', 'VIOLATION (open raised KeyError)'),
 ('/tmp/mut4/C06/3', 'C06-11', 'C06', S % 'telstates without the need_weights_power_scale key', 'a telstate without the need_weights_power_scale key', 'VIOLATION (weights differ from what was stored)'),
 ('/tmp/mut4/C07/1', 'C07-9', 'C07', 'yes', 'get_dask_array(index=...) empty on one axis but not all, ndim >= 2', 'VIOLATION'),
 ('/tmp/mut4/C07/2', 'C07-10', 'C07', 'yes', 'datetime64 / timedelta64 chunks read back from S3', 'VIOLATION'),
 ('/tmp/mut4/C08/1', 'C08-9', 'C08', 'yes', 'object GETs answered 403 while the bucket listing succeeds', 'VIOLATION'),
 ('/tmp/mut4/C08/2', 'C08-10', 'C08', 'yes', 'an NPY store path that exists but is not a directory', 'VIOLATION'),
 ('/tmp/mut4/C08/3', 'C08-11', 'C08', 'yes', 'an S3 object of the promised shape and another dtype with the same item size', 'VIOLATION'),
 ('/tmp/mut4/C09/1', 'C09-9', 'C09', 'yes', 'an ES256 token with extra base64url characters after the signature', 'VIOLATION'),
 ('/tmp/mut4/C09/2', 'C09-10', 'C09', S % 'stores constructed with a single-number timeout, with stalls', 'a store constructed with a scalar timeout and a stall after the response headers', 'VIOLATION (TypeError instead of a retry)'),
 ('/tmp/mut4/C09/3', 'C09-11', 'C09', S % 'RDB fetches with retries given as a number or (connect, read) pair', 'an http RDB URL opened with retries=2 or (1, 3) and a single 5xx on the RDB object', 'VIOLATION'),
 ('/tmp/mut4/C10/1', 'C10-9', 'C10', 'yes', 'an initial value longer than every sensor string kept in the dump range', 'VIOLATION'),
 ('/tmp/mut4/C10/2', 'C10-10', 'C10', S % 'array values that are equal but not bit-identical (integer and float arrays with the same numbers)', 'consecutive wrapped values that are array_equal but not bit-identical, allow_repeats=False', 'VIOLATION (repeated consecutive values)'),
 ('/tmp/mut4/C10/3', 'C10-11', 'C10', 'yes', 'an empty dump earlier, a greedy value as last event of its dump, two or more events in the next non-empty dump', 'VIOLATION'),
]
WAVE2 = []

if __name__ == '__main__':
    a.T = []
    a.main(T + WAVE2)
