#!/venv/bin/python
"""Archive the confirmed seeded changes of the fourth round under seeded/<id>/ (see archive_round2.py)."""
import sys, os
sys.path.insert(0, os.path.dirname(os.path.abspath(__file__)))
import archive_round2 as a

S = 'yes (after strengthening: %s)'
T = [
 ('/tmp/mut4/C01/1', 'C01-9', 'C01', S % 'strided time slices on every format (also caught by C05 and C19)', 'a v1 file with at least two scans and a time slice with step >= 3 crossing a scan boundary out of phase', 'VIOLATION (timestamps / vis of other dumps)'),
 ('/tmp/mut4/C01/2', 'C01-10', 'C01', S % 'v2 files whose centre frequency changes during the observation', 'a v2 file with two spectral windows whose first frequency is not the lowest', 'VIOLATION (freqs of the other window)'),
 ('/tmp/mut4/C01/3', 'C01-11', 'C01', S % 'per-dump sensors compared inside and after scans()', 'iterating scans() / compscans() to at least the second scan, then reading a per-dump sensor', 'VIOLATION (sensor does not follow the exposed dumps)'),
 ('/tmp/mut4/C02/1', 'C02-9', 'C02', 'yes', 'a mixed ants list whose ~name comes last, on a subarray with at least 3 antennas', 'VIOLATION'),
 ('/tmp/mut4/C02/2', 'C02-10', 'C02', S % 'lower-sideband spectral windows (frequency falling with channel index)', 'freqrange on a lower-sideband window', 'VIOLATION'),
 ('/tmp/mut4/C02/3', 'C02-11', 'C02', 'yes', 'a boolean corrprods mask after another product criterion in keyword order, or with reset=""', 'VIOLATION'),
 ('/tmp/mut4/C03/1', 'C03-9', 'C03', S % 'a real-reader stream: v1 files with more than ten compound scans (also caught by C01)', 'a v1 file with at least 11 compound scans (or 11 scans in one compound scan)', 'VIOLATION (dumps not in time order)'),
 ('/tmp/mut4/C03/2', 'C03-10', 'C03', S % 'a real-reader stream: concatenated v4 data sets whose junctions repeat the state (also caught by C19)', 'a concatenated data set whose earlier part ends in the state the later part starts in', 'VIOLATION (yielded state is not that of the dumps / IndexError)'),
 ('/tmp/mut4/C03/3', 'C03-11', 'C03', S % 'a real-reader stream: three or more concatenated v4 data sets (also caught by C19)', 'three or more concatenated data sets (scan indices)', 'VIOLATION'),
 ('/tmp/mut4/C04/1', 'C04-9', 'C04', 'yes', 'an integer on a short axis followed by an evenly spaced list / contiguous mask on a longer axis', 'VIOLATION'),
 ('/tmp/mut4/C04/2', 'C04-10', 'C04', S % 'joint fetch of indexers with different shapes and an end-relative index', 'a joint get() of indexers whose indexed axes differ in length with an index relative to the end of an axis', 'VIOLATION (joint get() differs from one-by-one retrieval)'),
 ('/tmp/mut4/C04/3', 'C04-11', 'C04', S % 'a lazy array restricted to a window empty on its first axis reads nothing (also caught by C06 and C07)', 'get_dask_array(index=...) with a window empty on some axes only', 'VIOLATION'),
 ('/tmp/mut4/C05/1', 'C05-9', 'C05', 'yes', 'a non-identity transform chain and a second-stage index with an integer on every axis', 'VIOLATION'),
 ('/tmp/mut4/C05/2', 'C05-10', 'C05', 'yes', 'a list with a negative entry on a non-first axis without first stage, axis 0 shorter than that axis', 'VIOLATION'),
 ('/tmp/mut4/C05/3', 'C05-11', 'C05', 'yes', 'an empty head slice whose start is 0 or the first row of a part', 'VIOLATION'),
 ('/tmp/mut4/C06/1', 'C06-9', 'C06', S % 'an attached flags stream with its own missing chunks, in the current and the older chunk_info layout', 'an attached flags stream whose chunk_info has no prefix item', 'VIOLATION'),
 ('/tmp/mut4/C06/2', 'C06-10', 'C06', S % 'opening through the RDB file with the chunk store inferred, array directories removed when every chunk is gone', 'a data set opened by its RDB file with every correlator_data chunk absent', 'VIOLATION (open raised KeyError)'),
 ('/tmp/mut4/C06/3', 'C06-11', 'C06', S % 'telstates without the need_weights_power_scale key', 'a telstate without the need_weights_power_scale key', 'VIOLATION (weights differ from what was stored)'),
 ('/tmp/mut4/C07/1', 'C07-9', 'C07', 'yes', 'get_dask_array(index=...) empty on one axis but not all, ndim >= 2', 'VIOLATION'),
 ('/tmp/mut4/C07/2', 'C07-10', 'C07', 'yes', 'datetime64 / timedelta64 chunks read back from S3', 'VIOLATION'),
 ('/tmp/mut4/C08/1', 'C08-9', 'C08', 'yes', 'object GETs answered 403 while the bucket listing succeeds', 'VIOLATION'),
 ('/tmp/mut4/C08/3', 'C08-11', 'C08', 'yes', 'an S3 object of the promised shape and another dtype with the same item size', 'VIOLATION'),
 ('/tmp/mut4/C09/1', 'C09-9', 'C09', 'yes', 'an ES256 token with extra base64url characters after the signature', 'VIOLATION'),
 ('/tmp/mut4/C09/2', 'C09-10', 'C09', S % 'stores constructed with a single-number timeout, with stalls', 'a store constructed with a scalar timeout and a stall after the response headers', 'VIOLATION (TypeError instead of a retry)'),
 ('/tmp/mut4/C09/3', 'C09-11', 'C09', S % 'RDB fetches with retries given as a number or (connect, read) pair', 'an http RDB URL opened with retries=2 or (1, 3) and a single 5xx on the RDB object', 'VIOLATION'),
 ('/tmp/mut4/C10/1', 'C10-9', 'C10', 'yes', 'an initial value longer than every sensor string kept in the dump range', 'VIOLATION'),
 ('/tmp/mut4/C10/2', 'C10-10', 'C10', S % 'array values that are equal but not bit-identical (integer and float arrays with the same numbers)', 'consecutive wrapped values that are array_equal but not bit-identical, allow_repeats=False', 'VIOLATION (repeated consecutive values)'),
 ('/tmp/mut4/C10/3', 'C10-11', 'C10', 'yes', 'an empty dump earlier, a greedy value as last event of its dump, two or more events in the next non-empty dump', 'VIOLATION'),
]
WAVE2 = [
 ('/tmp/mut4/C11/1', 'C11-9', 'C11', 'yes', 'add_unmatched with a segment start exactly match_dist dumps from its nearest event, inspected before align()', 'VIOLATION'),
 ('/tmp/mut4/C11/2', 'C11-10', 'C11', 'yes', 'concatenate_categorical with allow_repeats=True and an event repeating the previous value', 'VIOLATION'),
 ('/tmp/mut4/C11/3', 'C11-11', 'C11', 'yes', 'add(event) without a value on a dump that already carries an event whose value differs from the one before', 'VIOLATION'),
 ('/tmp/mut4/C12/1', 'C12-9', 'C12', 'yes', 'a numeric sensor with an initial_value in force and a dump before the first usable sample', 'VIOLATION'),
 ('/tmp/mut4/C12/2', 'C12-10', 'C12', S % "the data set's own virtual sensors (lst, ra, dec, parangle, target_[xy]_<projection>_<azel|radec>, mjd) compared with katpoint dump by dump; this also exposed a defect of the unchanged tree, repaired in /repo ce58373", 'the radec coordinate system of the target-coordinate sensors', 'VIOLATION (target_x_ARC_radec differs from the documented function of ra / dec)'),
 ('/tmp/mut4/C12/3', 'C12-11', 'C12', 'yes', 'a sensor with a status field whose samples are all unreadable (at least one sample)', 'VIOLATION'),
 ('/tmp/mut4/C13/1', 'C13-9', 'C13', S % 'end-to-end data sets with self-calibration on two targets observed alternately (also caught by C14)', 'an l2 product, two or more self-cal targets with solutions interleaved in time', 'VIOLATION (vis is not stored * factor)'),
 ('/tmp/mut4/C13/2', 'C13-10', 'C13', S % 'end-to-end data sets with a two-part bandpass whose parts have different solution times (also caught by C14)', 'a multi-part product one of whose parts misses a solution time and has a later one', 'VIOLATION'),
 ('/tmp/mut4/C13/3', 'C13-11', 'C13', S % 'end-to-end data sets whose gain solutions are all later than the last dump (also caught by C14)', 'a gain product whose solutions all lie after the loaded dumps', 'VIOLATION (weights / flags of uncalibrated data not zeroed / raised)'),
 ('/tmp/mut4/C14/1', 'C14-9', 'C14', 'yes', 'a target change between two consecutive gain solutions with different flux densities', 'VIOLATION'),
 ('/tmp/mut4/C14/2', 'C14-10', 'C14', 'yes', 'a first gain solution stamped before the end of dump 0', 'VIOLATION'),
 ('/tmp/mut4/C14/3', 'C14-11', 'C14', 'partly (not by C14, whose claim ends at the correction sensors; by C13, which owns the channel maps of calc_correction)', 'a per-channel gain product on a cal stream with as many channels as the data but other frequencies', 'C14 exit 0; C13 VIOLATION'),
 ('/tmp/mut4/C15/1', 'C15-9', 'C15', 'yes', 'weights chunked along the baseline axis while correlator_data is not', 'VIOLATION'),
 ('/tmp/mut4/C15/2', 'C15-10', 'C15', 'yes', 'flagav=True, two or more output time bins, a flag in an earlier bin only', 'VIOLATION'),
 ('/tmp/mut4/C15/3', 'C15-11', 'C15', S % 'excision read from data sets opened with applycal and gains present', 'a v4 data set with CBF dump information opened with applycal, gain amplitudes away from 1, d.excision read', 'VIOLATION'),
 ('/tmp/mut4/C16/1', 'C16-9', 'C16', 'partly (not by C16, which reads flags of the opened stream; by C06 and C18, which own the attached flags stream)', 'an attached sdp.flags stream whose chunk_info has no prefix item and whose chunking equals the L0 flags', 'C16 exit 0; C06 and C18 VIOLATION'),
 ('/tmp/mut4/C16/2', 'C16-10', 'C16', 'yes', 'a v2 file with Markup/flags but no flags_description table, flags selected by name', 'VIOLATION'),
 ('/tmp/mut4/C16/3', 'C16-11', 'C16', 'yes', 'a dumps selection given as a strided / offset slice or index list, then select(flags=...) or select(weights=...)', 'VIOLATION'),
 ('/tmp/mut4/C17/1', 'C17-9', 'C17', 'yes', 'a capture whose first dump lands exactly on the fix date', 'VIOLATION'),
 ('/tmp/mut4/C17/2', 'C17-10', 'C17', 'partly (not by C17, whose data sets have no inheriting stream; by C18, which owns the namespace order)', 'an opened stream with an inherit key whose parent defines int_time / n_chans / first_timestamp differently', 'C17 exit 0; C18 VIOLATION'),
 ('/tmp/mut4/C17/3', 'C17-11', 'C17', S % 'several RDB files opened together with dumps / channels preselects', 'katdal.open on a list of RDB files with a dumps preselect', 'VIOLATION (dumps preselect accepted)'),
 ('/tmp/mut4/C18/1', 'C18-9', 'C18', 'yes', 'capture block / stream overrides given only in the query of a scheme-less path', 'VIOLATION'),
 ('/tmp/mut4/C18/2', 'C18-10', 'C18', 'yes', 'a local path that exists but is not a readable file (the capture block directory)', 'VIOLATION'),
 ('/tmp/mut4/C18/3', 'C18-11', 'C18', 'yes', 'an inherit chain of two or more links with a key defined only at the far end', 'VIOLATION'),
 ('/tmp/mut4/C19/1', 'C19-9', 'C19', 'yes', 'parts with the same antennas and the same set of correlation products in another order', 'VIOLATION'),
 ('/tmp/mut4/C19/2', 'C19-10', 'C19', 'yes', 'a selection that empties a non-final part followed by a second-stage index', 'VIOLATION'),
 ('/tmp/mut4/C19/3', 'C19-11', 'C19', S % 'boolean and integer sensors present in a subset of the parts', 'a boolean sensor present in only some of the concatenated parts', 'VIOLATION'),
 ('/tmp/mut4/C20/1', 'C20-9', 'C20', 'yes', 'two threads first-accessing the same child of a nested DaskLazyIndexer with one preemption between two particular lines', 'VIOLATION no-failing-input-found (the observed transitions are no longer steps of the verified transition system; the extended search met no schedule with a wrong value)'),
 ('/tmp/mut4/C20/2', 'C20-10', 'C20', S % 'the sensor-cache model and scenarios with unknown names and failing creation functions (KeyError unwinding), new theorem rlock_released_on_every_exit', 'a lookup that raises inside get() in one thread that stays alive, then another thread using the cache', 'VIOLATION (deadlock, with the schedule)'),
 ('/tmp/mut4/C20/3', 'C20-11', 'C20', S % "the data set's own virtual sensors under the controlled scheduler, every single preemption point, np.empty poisoned with NaN (patch re-based onto /repo ce58373)", 'target_x in one thread and target_y in another with a preemption inside _calc_target_coords', 'VIOLATION (thread 1 obtained [nan, nan]; before the strengthening: no-failing-input-found)'),
]

if __name__ == '__main__':
    a.T = []
    a.main(T + WAVE2)
