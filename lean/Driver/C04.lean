import Driver.Common
import KatdalModel.Model.DaskIndexer
open Np Index Drv DaskIx

/-- requests:
    getitem <shape> <ix>            -> per-axis selections by the mirror model
    spec <shape> <ix>               -> numpy per-axis meaning (spec)
    two <shape> <k1> <k2>           -> `<shape1> <composed sels>` by the mirror model
    spec2 <shape> <k1> <k2>         -> same by the spec
    r2s <l>                         -> _range_to_slice
    overlap <sizes> <lo> <hi>       -> chunk indices overlapping [lo,hi) -/
def step (line : String) : String :=
  match line.splitOn " " with
  | ["getitem", sh, ix] =>
    match parseShape sh, parseIxTuple ix with
    | some sh, some ix => showExcept showSels (daskGetitem sh ix)
    | _, _ => "bad-op"
  | ["spec", sh, ix] =>
    match parseShape sh, parseIxTuple ix with
    | some sh, some ix => showExcept showSels (do let p ← padIx sh.length ix; resolveAll sh p)
    | _, _ => "bad-op"
  | ["two", sh, k1, k2] =>
    match parseShape sh, parseIxTuple k1, parseIxTuple k2 with
    | some sh, some k1, some k2 =>
      showExcept (fun (s1, c) => s!"{showShape s1} {showSels c}") (twoStage sh k1 k2)
    | _, _, _ => "bad-op"
  | ["spec2", sh, k1, k2] =>
    match parseShape sh, parseIxTuple k1, parseIxTuple k2 with
    | some sh, some k1, some k2 =>
      showExcept (fun (s1, c) => s!"{showShape s1} {showSels c}") (do
        let p1 ← padIx sh.length k1
        let s1 ← resolveAll sh p1
        let sh1 := selShape s1
        let p2 ← padIx sh1.length k2
        let s2 ← resolveAll sh1 p2
        let c ← composeAll s1 s2
        pure (sh1, c))
    | _, _, _ => "bad-op"
  | "chain" :: sh :: stages =>
    match parseShape sh, stages.mapM parseIxTuple with
    | some sh, some (k1 :: ks) =>
      showExcept (fun (s1, c) => s!"{showShape s1} {showSels c}") (do
        let s1 ← daskGetitem sh k1
        ks.foldlM (fun (acc : List Nat × List Sel) k => do
          let shp := selShape acc.2
          let s2 ← daskGetitem shp k
          let c ← composeAll acc.2 s2
          pure (shp, c)) (sh, s1))
    | _, _ => "bad-op"
  | "specchain" :: sh :: stages =>
    match parseShape sh, stages.mapM parseIxTuple with
    | some sh, some (k1 :: ks) =>
      showExcept (fun (s1, c) => s!"{showShape s1} {showSels c}") (do
        let p1 ← padIx sh.length k1
        let s1 ← resolveAll sh p1
        ks.foldlM (fun (acc : List Nat × List Sel) k => do
          let shp := selShape acc.2
          let p2 ← padIx shp.length k
          let s2 ← resolveAll shp p2
          let c ← composeAll acc.2 s2
          pure (shp, c)) (sh, s1))
    | _, _ => "bad-op"
  | ["r2s", l] =>
    match parseIntList l with
    | some l => showExcept (fun (a, b, c) =>
        let f (o : Option Int) := match o with | none => "_" | some v => toString v
        s!"s:{f a}:{f b}:{f c}") (rangeToSlice l)
    | none => "bad-op"
  | ["np.slice", n, a, b, c] =>
    match n.toNat?, parseOptInt a, parseOptInt b, parseOptInt c with
    | some n, some a, some b, some c =>
      (match sliceList n a b c with
       | none => "E:ValueError"
       | some l => showIntList l)
    | _, _, _, _ => "bad-op"
  | ["np.nonzero", m] =>
    match parseMask m with
    | some m => showNatList (nonzero m)
    | none => "bad-op"
  | ["np.normint", n, i] =>
    match n.toNat?, i.toInt? with
    | some n, some i => showExcept toString (normInt n i)
    | _, _ => "bad-op"
  | ["np.ss", side, l, v] =>
    match parseIntList l, v.toInt? with
    | some l, some v => toString (if side = "right" then searchsortedRight l v else searchsortedLeft l v)
    | _, _ => "bad-op"
  | ["overlap", sizes, lo, hi] =>
    match parseNatList sizes, lo.toNat?, hi.toNat? with
    | some sz, some lo, some hi => showNatList (chunksOverlapping sz lo hi)
    | _, _, _ => "bad-op"
  | _ => "bad-op"

def main : IO Unit := Drv.loop step
