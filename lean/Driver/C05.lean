import Driver.Common
import KatdalModel.Model.LazyIndexer
open Np Index Drv LazyIx

def showPairs (l : List (Nat × Nat)) : String :=
  if l.isEmpty then "-" else ",".intercalate (l.map fun (p, k) => s!"{p}:{k}")

def showConcat (r : Except Err (Bool × List (Nat × Nat))) : String :=
  match r with
  | .ok (sc, l) => (if sc then "o " else "m ") ++ showPairs l
  | .error e => showErr e

/-- C-order offset of tail coordinates -/
def flatIdx : List Nat → List Nat → Nat
  | [], _ => 0
  | _ :: ns, j :: js => j * ns.foldl (· * ·) 1 + flatIdx ns js
  | _ :: ns, [] => flatIdx ns []

/-- the harness' coordinate-coded parts: element (k, t) of part p holds (start_p + k) * rowsz + offset(t) -/
def codedParts (lens tailShape : List Nat) : List (NDArr Nat) :=
  let rowsz := tailShape.foldl (· * ·) 1
  (lens.zip (partStarts lens)).map fun (n, off) =>
    ⟨n :: tailShape, fun js => match js with
      | [] => 0
      | k :: t => (off + k) * rowsz + flatIdx tailShape t⟩

def allCoords : List Nat → List (List Nat)
  | [] => [[]]
  | n :: ns => (List.range n).flatMap fun j => (allCoords ns).map (j :: ·)

def showArr (r : Except Err (NDArr Nat)) : String :=
  match r with
  | .error e => showErr e
  | .ok a =>
    let vals := (allCoords a.shape).map a.get
    showShape a.shape ++ " " ++ (if vals.isEmpty then "-" else showNatList vals)

/-- `-` = no tail axes, otherwise `;`-separated position lists, `e` = empty list -/
def parseTails (s : String) : Option (List (List Nat)) :=
  if s = "-" then some [] else (s.splitOn ";").mapM fun t => if t = "e" then some [] else parseNatList t

/-- per-axis grammar test for a whole request -/
def inGrammar (shape : List Nat) (k1 k2 : List Ix) : Bool :=
  let k1p := padTrunc shape.length k1
  let k2p := padTrunc shape.length k2
  (List.zip shape (List.zip k1p k2p)).all fun (n, a, b) =>
    stage1InG n a &&
    (match initialShape1 n a with
     | .ok n1 => stage2InG n1 b
     | .error _ => false)

def specAll : List Nat → List Ix → List Ix → Except Err (List Sel)
  | [], [], [] => .ok []
  | n :: ns, a :: as, b :: bs => do
    let s ← spec1 n a b
    let r ← specAll ns as bs
    pure (s :: r)
  | _, _, _ => .error .index

/-- requests:
    get <shape> <k1> <k2>      mirror model of LazyIndexer(src, k1)[k2]  -> per-axis selections
    spec <shape> <k1> <k2>     numpy composition, prefixed by G1/G0 (inside the property's grammar or not)
    ishape <shape> <k1>        `_initial_shape`
    concat <lens> <ix>         ConcatenatedLazyIndexer head axis (mirror)
    concatspec <lens> <ix>     spec
    concatfull <lens> <tailshape> <ix> <tails>      whole request on coordinate-coded parts (mirror)
    concatfullspec <lens> <tailshape> <ix> <tails>  the same key on the concatenation -/
def step (line : String) : String :=
  match line.splitOn " " with
  | ["get", sh, k1, k2] =>
    match parseShape sh, parseIxTuple k1, parseIxTuple k2 with
    | some sh, some k1, some k2 => showExcept showSels (getitem sh k1 k2)
    | _, _, _ => "bad-op"
  | ["spec", sh, k1, k2] =>
    match parseShape sh, parseIxTuple k1, parseIxTuple k2 with
    | some sh, some k1, some k2 =>
      let g := if inGrammar sh k1 k2 then "G1 " else "G0 "
      g ++ showExcept showSels (specAll sh (padTrunc sh.length k1) (padTrunc sh.length k2))
    | _, _, _ => "bad-op"
  | ["ishape", sh, k1] =>
    match parseShape sh, parseIxTuple k1 with
    | some sh, some k1 => showExcept showShape (initialShape sh (padTrunc sh.length k1))
    | _, _ => "bad-op"
  | ["concat", lens, ix] =>
    match parseNatList lens, parseIx ix with
    | some lens, some ix => showConcat (concatHead lens ix)
    | _, _ => "bad-op"
  | ["concatspec", lens, ix] =>
    match parseNatList lens, parseIx ix with
    | some lens, some ix => showConcat (concatSpec lens ix)
    | _, _ => "bad-op"
  | ["concatfull", lens, ts, ix, tails] =>
    match parseNatList lens, parseShape ts, parseIx ix, parseTails tails with
    | some lens, some ts, some ix, some tails => showArr (concatFull (codedParts lens ts) ix tails)
    | _, _, _, _ => "bad-op"
  | ["concatfullspec", lens, ts, ix, tails] =>
    match parseNatList lens, parseShape ts, parseIx ix, parseTails tails with
    | some lens, some ts, some ix, some tails => showArr (concatFullSpec (codedParts lens ts) ts ix tails)
    | _, _, _, _ => "bad-op"
  | _ => "bad-op"

def main : IO Unit := Drv.loop step
