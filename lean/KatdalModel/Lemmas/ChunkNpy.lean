/-
  Lemmas about katdal's NPY stream reader (`read_array` over `_DetectTruncation`).
-/
import KatdalModel.Model.ChunkStore
open Np

namespace ChunkStore

/-- how many bytes a raw read asks the source for -/
def Stream.want (s : Stream) (size : Nat) : Nat :=
  match s.sched with
  | [] => size
  | k :: _ => min size (max 1 k)

theorem Stream.read_eq (s : Stream) (size : Nat) :
    s.read size = (s.data.take (s.want size), { data := s.data.drop (s.want size), sched := s.sched.tail }) := by
  unfold Stream.read Stream.want
  cases s.sched <;> rfl

theorem Stream.want_le (s : Stream) (size : Nat) : s.want size ≤ size := by
  unfold Stream.want
  cases s.sched with
  | nil => exact Nat.le_refl _
  | cons k t => simp only; omega

theorem Stream.want_pos (s : Stream) {size : Nat} (h : 1 ≤ size) : 1 ≤ s.want size := by
  unfold Stream.want
  cases s.sched with
  | nil => exact h
  | cons k t => simp only; omega

/-- enough data: `_read_bytes` returns exactly the next `n` bytes, whatever the short-read
    schedule -/
theorem readBytes_ok : ∀ (fuel : Nat) (s : Stream) (n : Nat) (acc : Bytes), n ≤ fuel →
    n ≤ s.data.length →
    ∃ sch, readBytes fuel s n acc = .ok (acc ++ s.data.take n, { data := s.data.drop n, sched := sch }) := by
  intro fuel
  induction fuel with
  | zero =>
    intro s n acc hf _
    have : n = 0 := by omega
    subst this
    exact ⟨s.sched, by simp [readBytes]⟩
  | succ f ih =>
    intro s n acc hf hd
    by_cases hn : n = 0
    · subst hn
      exact ⟨s.sched, by simp [readBytes]⟩
    · unfold readBytes
      simp only [hn, if_false]
      rw [Stream.read_eq]
      simp only
      have hw1 := s.want_pos (by omega : 1 ≤ n)
      have hw2 := s.want_le n
      have hlen : (s.data.take (s.want n)).length = s.want n := by
        rw [List.length_take]; omega
      have hne : (s.data.take (s.want n)).isEmpty = false := by
        cases h : s.data.take (s.want n) with
        | nil => rw [h] at hlen; simp at hlen; omega
        | cons _ _ => rfl
      simp only [hne, Bool.false_eq_true, if_false, hlen]
      by_cases hge : s.want n ≥ n
      · have : s.want n = n := by omega
        simp only [this, ge_iff_le, Nat.le_refl, if_true]
        exact ⟨_, rfl⟩
      · simp only [hge, if_false]
        have := ih { data := s.data.drop (s.want n), sched := s.sched.tail } (n - s.want n)
          (acc ++ s.data.take (s.want n)) (by omega) (by simp only [List.length_drop]; omega)
        obtain ⟨sch, hs⟩ := this
        refine ⟨sch, ?_⟩
        rw [hs]
        simp only [List.append_assoc, List.drop_drop]
        have e1 : s.want n + (n - s.want n) = n := by omega
        have e2 : s.data.take (s.want n) ++ (s.data.drop (s.want n)).take (n - s.want n)
            = s.data.take n := by
          rw [← List.take_add, e1]
        rw [e2, e1]

/-- not enough data: `_read_bytes` raises, whatever the short-read schedule -/
theorem readBytes_short : ∀ (fuel : Nat) (s : Stream) (n : Nat) (acc : Bytes),
    s.data.length < n → ∃ e, readBytes fuel s n acc = .error e := by
  intro fuel
  induction fuel with
  | zero =>
    intro s n acc h
    have : n ≠ 0 := by omega
    exact ⟨.valueError, by simp [readBytes, this]⟩
  | succ f ih =>
    intro s n acc h
    have hn : n ≠ 0 := by omega
    unfold readBytes
    simp only [hn, if_false]
    rw [Stream.read_eq]
    simp only
    by_cases he : (s.data.take (s.want n)).isEmpty = true
    · exact ⟨.incompleteRead, by simp [he]⟩
    · simp only [he, Bool.false_eq_true, if_false]
      have hl : (s.data.take (s.want n)).length ≤ s.data.length := by
        rw [List.length_take]; omega
      have hnot : ¬ (s.data.take (s.want n)).length ≥ n := by omega
      simp only [hnot, if_false]
      apply ih
      simp only [List.length_drop, List.length_take]
      omega

/-- reading a field `x` from a stream holding the first `k` bytes of `x ++ rest` -/
theorem readBytes_take (x rest : Bytes) (k : Nat) (sched : List Nat) (acc : Bytes) (fuel : Nat)
    (hf : x.length ≤ fuel) :
    (k < x.length → ∃ e, readBytes fuel ⟨(x ++ rest).take k, sched⟩ x.length acc = .error e) ∧
    (x.length ≤ k → ∃ sch, readBytes fuel ⟨(x ++ rest).take k, sched⟩ x.length acc
        = .ok (acc ++ x, ⟨rest.take (k - x.length), sch⟩)) := by
  constructor
  · intro hk
    apply readBytes_short
    simp only [List.length_take, List.length_append]
    omega
  · intro hk
    have hd : x.length ≤ ((x ++ rest).take k).length := by
      simp only [List.length_take, List.length_append]; omega
    obtain ⟨sch, hs⟩ := readBytes_ok fuel ⟨(x ++ rest).take k, sched⟩ x.length acc hf hd
    refine ⟨sch, ?_⟩
    rw [hs]
    simp only
    have e1 : ((x ++ rest).take k).take x.length = x := by
      rw [List.take_take, Nat.min_eq_left hk, List.take_append_of_le_length (Nat.le_refl _),
        List.take_length]
    have e2 : ((x ++ rest).take k).drop x.length = rest.take (k - x.length) := by
      rw [List.drop_take, List.drop_append_of_le_length (Nat.le_refl _), List.drop_length,
        List.nil_append]
    rw [e1, e2]

/-! ### little-endian length field -/

theorem natToLE_length : ∀ (k n : Nat), (natToLE k n).length = k := by
  intro k
  induction k with
  | zero => intro n; rfl
  | succ k ih => intro n; simp [natToLE, ih]

theorem leNat_natToLE : ∀ (k n : Nat), n < 256 ^ k → leNat (natToLE k n) = n := by
  intro k
  induction k with
  | zero => intro n h; simp at h; subst h; rfl
  | succ k ih =>
    intro n h
    simp only [natToLE, leNat]
    have h2 : n / 256 < 256 ^ k := by
      rw [Nat.div_lt_iff_lt_mul (by decide)]
      rw [Nat.pow_succ] at h; exact h
    rw [ih _ h2]
    have : (UInt8.ofNat (n % 256)).toNat = n % 256 := by
      rw [UInt8.toNat_ofNat']
      omega
    rw [this]
    have := Nat.div_add_mod n 256
    omega

/-! ### truncation -/

theorem readInto_short (s : Stream) (n : Nat) (h : s.data.length < n) :
    ∃ e, readInto s n = .error e := by
  unfold readInto
  rw [Stream.read_eq]
  simp only
  have : (s.data.take (s.want n)).length ≠ n := by
    rw [List.length_take]; omega
  exact ⟨.incompleteRead, by rw [if_neg this]⟩

/-- the reader on the first `k` bytes of `magic ++ ver ++ len ++ header ++ body`, for the two
    supported versions -/
theorem readArray_truncated_aux (parse : Bytes → Option Hdr) (ver : Bytes) (L : Nat)
    (hver : (ver = [1, 0] ∧ L = 2) ∨ (ver = [2, 0] ∧ L = 4))
    (header body : Bytes) (h : Hdr) (hp : parse header = some h)
    (hbody : body.length = h.nbytes) (hlen : header.length < 256 ^ L) (k : Nat)
    (hk : k < ((magicPrefix ++ ver) ++ (natToLE L header.length ++ (header ++ body))).length)
    (sched : List Nat) :
    ∃ e, readArray parse
      ⟨((magicPrefix ++ ver) ++ (natToLE L header.length ++ (header ++ body))).take k, sched⟩
        = .error e := by
  have hM : (magicPrefix ++ ver).length = 8 := by
    rcases hver with ⟨hv, _⟩ | ⟨hv, _⟩ <;> rw [hv] <;> rfl
  have hL : (natToLE L header.length).length = L := natToLE_length _ _
  have hLle : L ≤ 4 := by rcases hver with ⟨_, hv⟩ | ⟨_, hv⟩ <;> omega
  have hLpos : L ≠ 0 := by rcases hver with ⟨_, hv⟩ | ⟨_, hv⟩ <;> omega
  have hmagic : (magicPrefix ++ ver).take 6 = magicPrefix := by
    rcases hver with ⟨hv, _⟩ | ⟨hv, _⟩ <;> rw [hv] <;> rfl
  have hdrop : (magicPrefix ++ ver).drop 6 = ver := by
    rcases hver with ⟨hv, _⟩ | ⟨hv, _⟩ <;> rw [hv] <;> rfl
  have hlenB : (if ver = [1, 0] then 2 else if ver = [2, 0] then 4 else 0) = L := by
    rcases hver with ⟨hv, hl⟩ | ⟨hv, hl⟩ <;> rw [hv, hl] <;> decide
  simp only [List.length_append, hL] at hk
  rw [List.length_append] at hM
  have st1 := readBytes_take (magicPrefix ++ ver)
    (natToLE L header.length ++ (header ++ body)) k sched [] 8 (by rw [List.length_append]; omega)
  rw [List.length_append, hM] at st1
  unfold readArray
  by_cases hk1 : k < 8
  · obtain ⟨e, he⟩ := st1.1 hk1
    exact ⟨e, by rw [he]⟩
  · obtain ⟨sch1, hs1⟩ := st1.2 (by omega)
    rw [hs1]
    simp only [List.nil_append, hmagic, hdrop, hlenB, ne_eq, not_true_eq_false, if_false, hLpos]
    have st2 := readBytes_take (natToLE L header.length) (header ++ body) (k - 8) sch1 [] L
      (by rw [hL]; exact Nat.le_refl _)
    rw [hL] at st2
    by_cases hk2 : k - 8 < L
    · obtain ⟨e, he⟩ := st2.1 hk2
      exact ⟨e, by rw [he]⟩
    · obtain ⟨sch2, hs2⟩ := st2.2 (by omega)
      rw [hs2]
      simp only [List.nil_append, leNat_natToLE L header.length hlen]
      have st3 := readBytes_take header body (k - 8 - L) sch2 [] header.length (Nat.le_refl _)
      by_cases hk3 : k - 8 - L < header.length
      · obtain ⟨e, he⟩ := st3.1 hk3
        exact ⟨e, by rw [he]⟩
      · obtain ⟨sch3, hs3⟩ := st3.2 (by omega)
        rw [hs3]
        simp only [List.nil_append, hp]
        by_cases hobj : h.hasObject = true
        · exact ⟨.valueError, by simp [hobj]⟩
        · simp only [hobj, Bool.false_eq_true, if_false]
          have : (⟨body.take (k - 8 - L - header.length), sch3⟩ : Stream).data.length < h.nbytes := by
            simp only [List.length_take]; omega
          obtain ⟨e, he⟩ := readInto_short _ _ this
          exact ⟨e, by rw [he]⟩

theorem encodeNpy_eq (v2 : Bool) (header body : Bytes) :
    encodeNpy v2 header body
      = (magicPrefix ++ (if v2 then [2, 0] else [1, 0]))
        ++ (natToLE (if v2 then 4 else 2) header.length ++ (header ++ body)) := by
  simp [encodeNpy, List.append_assoc]

/-- **a truncated chunk is never returned as data** (stream reader): for every valid encoding
    and every proper prefix of it, `read_array` raises, for every short-read schedule -/
theorem readArray_truncated (parse : Bytes → Option Hdr) (v2 : Bool) (header body : Bytes)
    (h : Hdr) (hp : parse header = some h) (hbody : body.length = h.nbytes)
    (hlen : header.length < 256 ^ (if v2 then 4 else 2)) (k : Nat)
    (hk : k < (encodeNpy v2 header body).length) (sched : List Nat) :
    ∃ e, readArray parse ⟨(encodeNpy v2 header body).take k, sched⟩ = .error e := by
  rw [encodeNpy_eq] at hk ⊢
  apply readArray_truncated_aux parse _ _ _ header body h hp hbody hlen k hk sched
  cases v2
  · left; exact ⟨rfl, rfl⟩
  · right; exact ⟨rfl, rfl⟩

/-! ### complete blobs read back (unbounded reads) -/

theorem readBytes_nosched (fuel : Nat) (data : Bytes) (n : Nat) (acc : Bytes) (hf : n ≤ fuel)
    (hd : n ≤ data.length) :
    readBytes fuel ⟨data, []⟩ n acc = .ok (acc ++ data.take n, ⟨data.drop n, []⟩) := by
  cases fuel with
  | zero =>
    have : n = 0 := by omega
    subst this; simp [readBytes]
  | succ f =>
    by_cases hn : n = 0
    · subst hn; simp [readBytes]
    · unfold readBytes
      simp only [hn, if_false, Stream.read]
      have hlen : (data.take n).length = n := by rw [List.length_take]; omega
      have hne : (data.take n).isEmpty = false := by
        cases h : data.take n with
        | nil => rw [h] at hlen; simp at hlen; omega
        | cons _ _ => rfl
      simp [hne, hlen]

theorem readArray_complete_aux (parse : Bytes → Option Hdr) (ver : Bytes) (L : Nat)
    (hver : (ver = [1, 0] ∧ L = 2) ∨ (ver = [2, 0] ∧ L = 4))
    (header body extra : Bytes) (h : Hdr) (hp : parse header = some h) (hobj : h.hasObject = false)
    (hbody : body.length = h.nbytes) (hlen : header.length < 256 ^ L) :
    readArray parse
      ⟨((magicPrefix ++ ver) ++ (natToLE L header.length ++ (header ++ body))) ++ extra, []⟩
        = .ok (h, body) := by
  have hM : (magicPrefix ++ ver).length = 8 := by
    rcases hver with ⟨hv, _⟩ | ⟨hv, _⟩ <;> rw [hv] <;> rfl
  have hL : (natToLE L header.length).length = L := natToLE_length _ _
  have hLpos : L ≠ 0 := by rcases hver with ⟨_, hv⟩ | ⟨_, hv⟩ <;> omega
  have hmagic : (magicPrefix ++ ver).take 6 = magicPrefix := by
    rcases hver with ⟨hv, _⟩ | ⟨hv, _⟩ <;> rw [hv] <;> rfl
  have hdrop : (magicPrefix ++ ver).drop 6 = ver := by
    rcases hver with ⟨hv, _⟩ | ⟨hv, _⟩ <;> rw [hv] <;> rfl
  have hlenB : (if ver = [1, 0] then 2 else if ver = [2, 0] then 4 else 0) = L := by
    rcases hver with ⟨hv, hl⟩ | ⟨hv, hl⟩ <;> rw [hv, hl] <;> decide
  have e0 : ((magicPrefix ++ ver) ++ (natToLE L header.length ++ (header ++ body))) ++ extra
      = (magicPrefix ++ ver) ++ (natToLE L header.length ++ (header ++ (body ++ extra))) := by
    simp [List.append_assoc]
  rw [e0]
  unfold readArray
  rw [readBytes_nosched 8 _ 8 [] (Nat.le_refl _) (by rw [List.length_append, hM]; omega)]
  rw [List.take_left' hM, List.drop_left' hM]
  simp only [List.nil_append, hmagic, hdrop, hlenB, ne_eq, not_true_eq_false, if_false, hLpos]
  rw [readBytes_nosched L _ L [] (Nat.le_refl _) (by rw [List.length_append, hL]; omega)]
  rw [List.take_left' hL, List.drop_left' hL]
  simp only [List.nil_append, leNat_natToLE L header.length hlen]
  rw [readBytes_nosched header.length _ header.length [] (Nat.le_refl _)
    (by rw [List.length_append]; omega)]
  rw [List.take_left' rfl, List.drop_left' rfl]
  simp only [List.nil_append, hp, hobj, Bool.false_eq_true, if_false]
  unfold readInto Stream.read
  simp only
  rw [List.take_left' hbody]
  simp [hbody]

/-- a complete blob (even with trailing bytes) decodes to its header facts and body -/
theorem readArray_complete (parse : Bytes → Option Hdr) (v2 : Bool) (header body extra : Bytes)
    (h : Hdr) (hp : parse header = some h) (hobj : h.hasObject = false)
    (hbody : body.length = h.nbytes) (hlen : header.length < 256 ^ (if v2 then 4 else 2)) :
    readArray parse ⟨encodeNpy v2 header body ++ extra, []⟩ = .ok (h, body) := by
  rw [encodeNpy_eq]
  apply readArray_complete_aux parse _ _ _ header body extra h hp hobj hbody hlen
  cases v2
  · left; exact ⟨rfl, rfl⟩
  · right; exact ⟨rfl, rfl⟩

/-! ### short reads never yield wrong data -/

theorem readBytes_field (x rest : Bytes) (sched : List Nat) (acc : Bytes) (fuel : Nat)
    (hf : x.length ≤ fuel) :
    ∃ sch, readBytes fuel ⟨x ++ rest, sched⟩ x.length acc = .ok (acc ++ x, ⟨rest, sch⟩) := by
  obtain ⟨sch, hs⟩ := readBytes_ok fuel ⟨x ++ rest, sched⟩ x.length acc hf
    (by simp only [List.length_append]; omega)
  refine ⟨sch, ?_⟩
  rw [hs]
  simp only
  rw [List.take_left' rfl, List.drop_left' rfl]

theorem readArray_sound_aux (parse : Bytes → Option Hdr) (ver : Bytes) (L : Nat)
    (hver : (ver = [1, 0] ∧ L = 2) ∨ (ver = [2, 0] ∧ L = 4))
    (header body extra : Bytes) (h : Hdr) (hp : parse header = some h)
    (hbody : body.length = h.nbytes) (hlen : header.length < 256 ^ L) (sched : List Nat)
    (r : Hdr × Bytes)
    (hr : readArray parse
      ⟨(magicPrefix ++ ver) ++ (natToLE L header.length ++ (header ++ (body ++ extra))), sched⟩
        = .ok r) : r = (h, body) := by
  have hM : (magicPrefix ++ ver).length = 8 := by
    rcases hver with ⟨hv, _⟩ | ⟨hv, _⟩ <;> rw [hv] <;> rfl
  have hL : (natToLE L header.length).length = L := natToLE_length _ _
  have hLpos : L ≠ 0 := by rcases hver with ⟨_, hv⟩ | ⟨_, hv⟩ <;> omega
  have hmagic : (magicPrefix ++ ver).take 6 = magicPrefix := by
    rcases hver with ⟨hv, _⟩ | ⟨hv, _⟩ <;> rw [hv] <;> rfl
  have hdrop : (magicPrefix ++ ver).drop 6 = ver := by
    rcases hver with ⟨hv, _⟩ | ⟨hv, _⟩ <;> rw [hv] <;> rfl
  have hlenB : (if ver = [1, 0] then 2 else if ver = [2, 0] then 4 else 0) = L := by
    rcases hver with ⟨hv, hl⟩ | ⟨hv, hl⟩ <;> rw [hv, hl] <;> decide
  unfold readArray at hr
  obtain ⟨sch1, hs1⟩ := readBytes_field (magicPrefix ++ ver)
    (natToLE L header.length ++ (header ++ (body ++ extra))) sched [] 8 (by rw [hM]; omega)
  rw [hM] at hs1
  rw [hs1] at hr
  simp only [List.nil_append, hmagic, hdrop, hlenB, ne_eq, not_true_eq_false, if_false, hLpos] at hr
  obtain ⟨sch2, hs2⟩ := readBytes_field (natToLE L header.length) (header ++ (body ++ extra)) sch1 [] L
    (by rw [hL]; omega)
  rw [hL] at hs2
  rw [hs2] at hr
  simp only [List.nil_append, leNat_natToLE L header.length hlen] at hr
  obtain ⟨sch3, hs3⟩ := readBytes_field header (body ++ extra) sch2 [] header.length (Nat.le_refl _)
  rw [hs3] at hr
  simp only [List.nil_append, hp] at hr
  by_cases hobj : h.hasObject = true
  · simp [hobj] at hr
  · simp only [hobj, Bool.false_eq_true, if_false] at hr
    unfold readInto at hr
    rw [Stream.read_eq] at hr
    simp only at hr
    generalize hw : (⟨body ++ extra, sch3⟩ : Stream).want h.nbytes = w at hr
    have hwle : w ≤ h.nbytes := by rw [← hw]; exact Stream.want_le _ _
    by_cases hlen' : ((body ++ extra).take w).length = h.nbytes
    · rw [if_pos hlen'] at hr
      simp only [Except.ok.injEq] at hr
      rw [← hr]
      have hweq : w = body.length := by
        rw [List.length_take] at hlen'
        omega
      rw [hweq, List.take_left' rfl]
    · rw [if_neg hlen'] at hr
      cases hr

/-- **short reads never yield wrong data**: whatever the short-read schedule, if `read_array`
    returns at all on a valid blob (possibly followed by more bytes) it returns exactly the
    blob's header facts and body -/
theorem readArray_sound (parse : Bytes → Option Hdr) (v2 : Bool) (header body extra : Bytes)
    (h : Hdr) (hp : parse header = some h) (hbody : body.length = h.nbytes)
    (hlen : header.length < 256 ^ (if v2 then 4 else 2)) (sched : List Nat) (r : Hdr × Bytes)
    (hr : readArray parse ⟨encodeNpy v2 header body ++ extra, sched⟩ = .ok r) : r = (h, body) := by
  rw [encodeNpy_eq] at hr
  have e0 : ((magicPrefix ++ (if v2 then [2, 0] else [1, 0])) ++
      (natToLE (if v2 then 4 else 2) header.length ++ (header ++ body))) ++ extra
      = (magicPrefix ++ (if v2 then [2, 0] else [1, 0])) ++
        (natToLE (if v2 then 4 else 2) header.length ++ (header ++ (body ++ extra))) := by
    simp [List.append_assoc]
  rw [e0] at hr
  apply readArray_sound_aux parse _ _ _ header body extra h hp hbody hlen sched r hr
  cases v2
  · left; exact ⟨rfl, rfl⟩
  · right; exact ⟨rfl, rfl⟩

end ChunkStore
