/-
  C11 lemmas, part 1: indexing and comparison of a `Cat` against its explicit per-dump list.
-/
import KatdalModel.Lemmas.CatBasic
open Np

namespace Categorical

set_option linter.unusedSimpArgs false

variable {V : Type} [DecidableEq V]

theorem expand_map {α β : Type} (f : α → β) : ∀ (ev : List Nat) (vals : List α),
    (expand ev vals).map f = expand ev (vals.map f) := by
  intro ev
  induction ev with
  | nil => intro vals; simp [expand]
  | cons a t ih =>
    intro vals
    cases t with
    | nil => simp [expand]
    | cons b u =>
      cases vals with
      | nil => simp [expand]
      | cons v vs =>
        simp only [expand, List.map_append, List.map_replicate, List.map_cons]
        rw [ih]

theorem getLastD_cons_cons {α : Type} (a b d : α) (t : List α) : (a :: b :: t).getLastD d = (b :: t).getLastD d := by
  simp [List.getLastD]

theorem sorted_head_le_last : ∀ (u : List Nat) (b : Nat), (b :: u).Pairwise (· ≤ ·) → b ≤ (b :: u).getLastD 0 := by
  intro u
  induction u with
  | nil => intro b _; simp [List.getLastD]
  | cons c w ih =>
    intro b hs
    have hs' := List.pairwise_cons.mp hs
    rw [getLastD_cons_cons]
    have := ih c hs'.2
    have := hs'.1 c (List.mem_cons_self ..)
    omega

theorem expand_length {α : Type} : ∀ (ev : List Nat) (vals : List α), ev.length = vals.length + 1 →
    ev.Pairwise (· ≤ ·) → (expand ev vals).length = ev.getLastD 0 - ev.headD 0 := by
  intro ev
  induction ev with
  | nil => intro vals h; simp at h
  | cons a t ih =>
    intro vals h hs
    cases t with
    | nil => simp [expand]
    | cons b u =>
      cases vals with
      | nil => simp at h
      | cons v vs =>
        have hs' := List.pairwise_cons.mp hs
        have hab : a ≤ b := hs'.1 b (List.mem_cons_self ..)
        have hlast : b ≤ (b :: u).getLastD 0 := sorted_head_le_last u b hs'.2
        simp only [expand, List.length_append, List.length_replicate]
        rw [ih vs (by simpa using h) hs'.2]
        have e1 : (a :: b :: u).getLastD 0 = (b :: u).getLastD 0 := getLastD_cons_cons ..
        simp only [e1, List.headD_cons]
        omega

/-- the per-dump list of indices into `uniq` -/
def Cat.perDumpIdx (c : Cat V) : List (Option Nat) :=
  List.replicate (c.ev.headD 0) none ++ expand c.ev (c.idx.map some)

theorem perDump_eq_idx (c : Cat V) :
    c.perDump = c.perDumpIdx.map (fun o => o.bind (fun i => c.uniq[i]?)) := by
  simp only [Cat.perDump, Cat.perDumpIdx, Cat.values, List.map_append, List.map_replicate, expand_map,
    List.map_map, Option.bind]
  rfl

/-- pointwise content of the written-out segments: dump `d ≥ a` carries the value of the last
    boundary at or before `d` -/
theorem expand_getElem? {α : Type} : ∀ (rest : List Nat) (a : Nat) (vals : List α) (d : Nat),
    rest.length = vals.length → (a :: rest).Pairwise (· ≤ ·) → a ≤ d →
    (expand (a :: rest) vals)[d - a]? = vals[(rest.takeWhile (fun e => decide (e ≤ d))).length]? := by
  intro rest
  induction rest with
  | nil =>
    intro a vals d h _ _
    cases vals with
    | nil => simp [expand]
    | cons v vs => simp at h
  | cons b t ih =>
    intro a vals d h hs had
    cases vals with
    | nil => simp at h
    | cons v vs =>
      have hs' := List.pairwise_cons.mp hs
      have hab : a ≤ b := hs'.1 b (List.mem_cons_self ..)
      simp only [expand]
      by_cases hdb : d < b
      · have hnb : ¬ b ≤ d := by omega
        simp only [List.takeWhile_cons, hnb, decide_false, Bool.false_eq_true, if_false, List.length_nil,
          List.getElem?_cons_zero]
        rw [List.getElem?_append_left (by simp; omega)]
        rw [List.getElem?_replicate]
        have : d - a < b - a := by omega
        simp [this]
      · have hbd : b ≤ d := by omega
        simp only [List.takeWhile_cons, hbd, decide_true, if_true, List.length_cons, List.getElem?_cons_succ]
        rw [List.getElem?_append_right (by simp; omega)]
        simp only [List.length_replicate]
        have : d - a - (b - a) = d - b := by omega
        rw [this]
        exact ih b vs d (by simpa using h) hs'.2 hbd

theorem strictInc_pairwise : ∀ (l : List Nat), strictIncNat l = true → l.Pairwise (· < ·) := by
  intro l
  induction l with
  | nil => intro _; simp
  | cons a t ih =>
    intro h
    cases t with
    | nil => simp
    | cons b u =>
      simp only [strictIncNat, Bool.and_eq_true, decide_eq_true_eq] at h
      have iht := ih h.2
      refine List.pairwise_cons.mpr ⟨?_, iht⟩
      intro x hx
      rcases List.mem_cons.mp hx with rfl | hx
      · exact h.1
      · have := (List.pairwise_cons.mp iht).1 x hx; omega

theorem WF.sorted {c : Cat V} (h : c.WF) : c.ev.Pairwise (· ≤ ·) :=
  (strictInc_pairwise _ h.1).imp (fun h => Nat.le_of_lt h)

/-- **`_lookup` reads the per-dump list**: for a well-formed series, looking up dump `d` gives the
    index stored for `d` in the per-dump list and raises IndexError exactly where the list has no
    entry (before the first event, at or after the number of dumps). -/
theorem lookup1_perDumpIdx (c : Cat V) (h : c.WF) (d : Nat) :
    c.lookup1 (d : Int) = match c.perDumpIdx[d]? with
      | some (some i) => .ok i
      | _ => .error .index := by
  obtain ⟨hs, hlen, _, _⟩ := h
  have hsorted : c.ev.Pairwise (· ≤ ·) := (strictInc_pairwise _ hs).imp (fun h => Nat.le_of_lt h)
  cases hev : c.ev with
  | nil => rw [hev] at hlen; simp at hlen
  | cons a rest =>
    have hrl : rest.length = c.idx.length := by rw [hev] at hlen; simpa using hlen
    have hcast : ∀ (l : List Nat), l.takeWhile (fun (e : Nat) => decide ((e : Int) ≤ (d : Int))) =
        l.takeWhile (fun e => decide (e ≤ d)) := by
      intro l; congr 1; funext e; simp
    simp only [Cat.lookup1, Cat.perDumpIdx, hev, hcast, List.headD_cons]
    by_cases had : a ≤ d
    · simp only [List.takeWhile_cons, had, decide_true, if_true, List.length_cons]
      rw [List.getElem?_append_right (by simp; exact had)]
      simp only [List.length_replicate]
      rw [hev] at hsorted
      rw [expand_getElem? rest a (c.idx.map some) d (by simpa using hrl) hsorted had]
      simp only [Nat.add_sub_cancel, Nat.succ_ne_zero, false_or, List.getElem?_map]
      by_cases hk : c.idx.length ≤ (rest.takeWhile (fun e => decide (e ≤ d))).length
      · simp [hk, List.getElem?_eq_none hk]
      · have hk' : (rest.takeWhile (fun e => decide (e ≤ d))).length < c.idx.length := by omega
        simp [hk, getNat, List.getElem?_eq_getElem hk']
    · have : ¬ a ≤ d := had
      simp only [List.takeWhile_cons, this, decide_false, Bool.false_eq_true, if_false, List.length_nil, true_or,
        if_true]
      rw [List.getElem?_append_left (by simp; omega)]
      rw [List.getElem?_replicate]
      have : d < a := by omega
      simp [this]

end Categorical
