#!/bin/bash
# For every kept seeded mutation without suite.txt: apply it in a scratch worktree and run the repo's full
# baseline test command; record the pytest summary line in seeded/<id>/suite.txt.  PAR=<n> runs n at a time.
cd /verif || exit 2
one() {
  id=$1
  d=seeded/$id
  [ -f "$d/suite.txt" ] && exit 0
  wt=/tmp/scratch_suite_$id
  git -C /repo worktree add --detach "$wt" HEAD >/dev/null 2>&1 || exit 0
  if git -C "$wt" apply "/verif/$d/patch.diff"; then
    ( cd "$wt" && timeout 2400 /venv/bin/python -m pytest -q -p no:cacheprovider --timeout=900 --continue-on-collection-errors 2>&1 | tail -1 ) > "$d/suite.txt"
  else
    echo "patch does not apply" > "$d/suite.txt"
  fi
  git -C /repo worktree remove --force "$wt" >/dev/null 2>&1
  echo "$id: $(cat $d/suite.txt)"
}
export -f one
ls seeded | grep '^C' | xargs -P "${PAR:-1}" -I{} bash -c 'one {}'
