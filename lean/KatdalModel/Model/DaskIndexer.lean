/-
  C04 model: katdal.lazy_indexer._range_to_slice / _simplify_index / dask_getitem /
  DaskLazyIndexer, mirroring the code's structure.  dask's own behaviour enters as
  `normalizeSlice` / `normalizeIndex1` (mirrors of dask.array.slicing) and the stated
  assumption that dask applies a normalised per-axis index with numpy's per-axis meaning.
-/
import KatdalModel.Model.Index
open Np Index

namespace DaskIx

/-- lazy_indexer._range_to_slice: evenly spaced non-negative ints -> slice. -/
def rangeToSlice (l : List Int) : Except Err (Option Int × Option Int × Option Int) :=
  match l with
  | [] => .ok (none, some 0, none)
  | x :: _ =>
    if l.any (· < 0) then .error .value else
    match diff l with
    | [] => .ok (some x, some (x + 1), some 1)
    | d :: ds =>
      if d = 0 ∨ ds.any (· ≠ d) then .error .value else
      let stop := l.getLastD x + d
      .ok (some x, if stop ≥ 0 then some stop else none, some d)

/-- dask.array.slicing.normalize_slice (dask 2026.8), `none` on zero step. -/
def normalizeSlice (n : Nat) (a b c : Option Int) : Option (Option Int × Option Int × Option Int) :=
  match sliceIndices n a b c with
  | none => none
  | some (s, e, st) =>
    if st > 0 then
      let s' : Option Int := if s = 0 then none else some s
      let e' : Option Int := if e ≥ n then none else some e
      let st' : Option Int := if st = 1 then none else some st
      let e'' : Option Int := match e', s' with
        | some ev, some sv => if ev < sv then some sv else some ev
        | _, _ => e'
      some (s', e'', st')
    else
      let s' : Option Int := if s ≥ (n : Int) - 1 then none else some s
      let e' : Option Int := if e < 0 then none else some e
      some (s', e', some st)

/-- A per-axis index after dask's normalize_index. -/
inductive DIx
  | int (k : Nat)
  | slice (a b c : Option Int)
  | arr (l : List Nat)
  deriving Repr, DecidableEq, Inhabited

/-- dask normalize_index on one axis: check_index, sanitize_index (bool mask -> nonzero),
    normalize_slice, posify_index. -/
def normalizeIndex1 (n : Nat) : Ix → Except Err DIx
  | .int i => do let k ← normInt n i; pure (.int k)
  | .slice a b c =>
    match normalizeSlice n a b c with
    | none => .error .value
    | some (a', b', c') => .ok (.slice a' b' c')
  | .mask m => if m.length = n then .ok (.arr (nonzero m)) else .error .index
  | .list l => do let ks ← normList n l; pure (.arr ks)

/-- lazy_indexer._simplify_index on one axis (after normalisation). -/
def simplify1 (n : Nat) : DIx → DIx
  | .arr l =>
    match rangeToSlice (l.map Int.ofNat) with
    | .error _ => .arr l
    | .ok (a, b, c) =>
      match normalizeSlice n a b c with
      | none => .arr l
      | some (a', b', c') => .slice a' b' c'
  | d => d

/-- Meaning of a normalised index (assumption on dask: numpy's per-axis meaning). -/
def DIx.resolve (n : Nat) : DIx → Except Err Sel
  | .int k => if k < n then .ok (.one k) else .error .index
  | .slice a b c => Ix.resolve n (.slice a b c)
  | .arr l => if l.all (· < n) then .ok (.many l) else .error .index

/-- dask_getitem on one axis: normalise, simplify, apply. -/
def getitem1 (n : Nat) (ix : Ix) : Except Err Sel := do
  let d ← normalizeIndex1 n ix
  (simplify1 n d).resolve n

def getitemAll : List Nat → List Ix → Except Err (List Sel)
  | [], [] => .ok []
  | n :: ns, i :: is => do
    let s ← getitem1 n i
    let r ← getitemAll ns is
    pure (s :: r)
  | _, _ => .error .index

/-- dask_getitem(x, indices) as per-axis selections of source positions. -/
def daskGetitem (shape : List Nat) (ix : List Ix) : Except Err (List Sel) := do
  let ixp ← padIx shape.length ix
  getitemAll shape ixp

/-- DaskLazyIndexer(dataset, keep)[index] as per-axis source positions + advertised shape. -/
def twoStage (shape : List Nat) (k1 k2 : List Ix) : Except Err (List Nat × List Sel) := do
  let s1 ← daskGetitem shape k1
  let shape1 := selShape s1
  let s2 ← daskGetitem shape1 k2
  let c ← composeAll s1 s2
  pure (shape1, c)

/-- The slices on which dask's normalize_slice is wrong (negative step and an explicit
    start below `-n`): `slice.indices` clamps the start to `-1` (empty range) and dask then
    reads `-1` as "last element". -/
def daskSliceBug (n : Nat) : Ix → Bool
  | .slice (some v) _ (some c) => decide (c < 0 ∧ v + n < 0)
  | _ => false

/-! Read set: chunks of one axis touched by a list of positions. -/

/-- chunk boundaries: start offsets of chunks given their sizes -/
def chunkStarts (sizes : List Nat) : List Nat :=
  (sizes.foldl (fun (acc : List Nat × Nat) x => (acc.1 ++ [acc.2], acc.2 + x)) ([], 0)).1

/-- index of the chunk containing position `p` -/
def chunkOf : List Nat → Nat → Nat
  | [], _ => 0
  | s :: t, p => if p < s then 0 else 1 + chunkOf t (p - s)

/-- chunks overlapping `[lo, hi)` for a chunking given by sizes: indices `i` with
    `start_i < hi ∧ lo < start_i + size_i` -/
def chunksOverlapping (sizes : List Nat) (lo hi : Nat) : List Nat :=
  let rec go (sizes : List Nat) (i off : Nat) : List Nat :=
    match sizes with
    | [] => []
    | s :: t => if off < hi ∧ lo < off + s ∧ lo < hi then i :: go t (i + 1) (off + s)
                else go t (i + 1) (off + s)
  go sizes 0 0

end DaskIx
