/-
  C10 lemmas, part 3: from the yields of the generator to the per-dump list of the returned
  `CategoricalData`, and the window cut of `sensor_to_categorical`.
-/
import KatdalModel.Lemmas.CatRule
open Np

namespace Categorical

set_option linter.unusedSimpArgs false

variable {α β : Type}

/-! ### segments written out -/

theorem expand_eq_expandFrom (N : Nat) : ∀ (rest : List (α × Nat)) (d0 : Nat) (y0 : α),
    expand (d0 :: (rest.map (·.2) ++ [N])) (y0 :: rest.map (·.1)) = expandFrom N d0 y0 rest := by
  intro rest
  induction rest with
  | nil => intro d0 y0; simp [expand, expandFrom]
  | cons y t ih =>
    intro d0 y0
    obtain ⟨v, d⟩ := y
    simp only [List.map_cons, List.cons_append, expand, expandFrom]
    rw [ih]

theorem expandFrom_map (f : α → β) (N : Nat) : ∀ (ys : List (α × Nat)) (a : Nat) (cur : α),
    (expandFrom N a cur ys).map f = expandFrom N a (f cur) (ys.map (fun y => (f y.1, y.2))) := by
  intro ys
  induction ys with
  | nil => intro a cur; simp [expandFrom]
  | cons y t ih =>
    intro a cur
    obtain ⟨v, d⟩ := y
    simp only [expandFrom, List.map_append, List.map_replicate, List.map_cons, ih]

/-- the open segment may be cut anywhere before the next boundary -/
theorem expandFrom_shift (N : Nat) (cur : α) (ys : List (α × Nat)) (a e : Nat) (hae : a ≤ e) (heN : e ≤ N)
    (h : ∀ y ∈ ys, e ≤ y.2) :
    expandFrom N a cur ys = List.replicate (e - a) cur ++ expandFrom N e cur ys := by
  cases ys with
  | nil => simp only [expandFrom]; rw [replicate_glue' cur a e N hae heN]
  | cons y t =>
    obtain ⟨v, d⟩ := y
    have hd : e ≤ d := h (v, d) (List.mem_cons_self ..)
    simp only [expandFrom]
    rw [replicate_glue cur a e d _ hae hd]

/-! ### repeat removal -/

variable {V : Type} [DecidableEq V]

theorem keepChanges_sublist : ∀ (ps : List (V × Nat)) (prev : Option V), (keepChanges prev ps).Sublist ps := by
  intro ps
  induction ps with
  | nil => intro prev; simp [keepChanges]
  | cons p t ih =>
    intro prev
    obtain ⟨v, e⟩ := p
    simp only [keepChanges]
    split
    · exact List.Sublist.cons _ (ih _)
    · exact List.Sublist.cons_cons _ (ih _)

/-- removing events that repeat the previous value does not change any dump's value -/
theorem keepChanges_expand (N : Nat) : ∀ (ps : List (V × Nat)) (a : Nat) (cur : V),
    (a :: ps.map (·.2)).Pairwise (· ≤ ·) → (∀ p ∈ ps, p.2 ≤ N) → a ≤ N →
    expandFrom N a cur (keepChanges (some cur) ps) = expandFrom N a cur ps := by
  intro ps
  induction ps with
  | nil => intro a cur _ _ _; rfl
  | cons p t ih =>
    intro a cur hs hN haN
    obtain ⟨v, e⟩ := p
    have hs' := List.pairwise_cons.mp hs
    have hae : a ≤ e := hs'.1 e (by simp)
    have heN : e ≤ N := hN (v, e) (List.mem_cons_self ..)
    have hst : (e :: t.map (·.2)).Pairwise (· ≤ ·) := by simpa using hs'.2
    have hNt : ∀ p ∈ t, p.2 ≤ N := fun p hp => hN p (List.mem_cons_of_mem _ hp)
    simp only [keepChanges]
    by_cases hv : cur = v
    · subst hv
      simp only [if_true, expandFrom]
      have hat : (a :: t.map (·.2)).Pairwise (· ≤ ·) := by
        refine List.pairwise_cons.mpr ⟨?_, (List.pairwise_cons.mp hst).2⟩
        intro x hx
        have := (List.pairwise_cons.mp hst).1 x hx
        omega
      rw [ih a cur hat hNt haN]
      exact expandFrom_shift N cur t a e hae heN (fun y hy => (List.pairwise_cons.mp hst).1 y.2 (by
        simp only [List.mem_map]; exact ⟨y, hy, rfl⟩))
    · have : ¬ (some cur = some v) := by simpa using hv
      simp only [this, if_false, expandFrom]
      rw [ih e v hst hNt heN]

/-- after repeat removal neighbouring values differ -/
theorem keepChanges_no_repeat : ∀ (ps : List (V × Nat)) (prev : Option V),
    (∀ x ∈ ((keepChanges prev ps).map (·.1)).head?, prev ≠ some x) ∧
    (∀ i, ∀ x y, ((keepChanges prev ps).map (·.1))[i]? = some x →
      ((keepChanges prev ps).map (·.1))[i + 1]? = some y → x ≠ y) := by
  intro ps
  induction ps with
  | nil => intro prev; simp [keepChanges]
  | cons p t ih =>
    intro prev
    obtain ⟨v, e⟩ := p
    simp only [keepChanges]
    by_cases hp : prev = some v
    · subst hp
      simp only [if_true]
      exact ih (some v)
    · simp only [hp, if_false, List.map_cons, List.head?_cons]
      obtain ⟨h1, h3⟩ := ih (some v)
      refine ⟨by simpa using hp, ?_⟩
      intro i x y hx hy
      cases i with
      | zero =>
        simp only [List.getElem?_cons_zero, Option.some.injEq] at hx
        simp only [Nat.zero_add, List.getElem?_cons_succ] at hy
        subst hx
        have h1' : ∀ z ∈ ((keepChanges (some v) t).map (·.1)).head?, some v ≠ some z := h1
        rw [List.head?_eq_getElem?] at h1'
        have := h1' y hy
        simpa using this
      | succ k =>
        simp only [List.getElem?_cons_succ] at hx hy
        exact h3 k x y hx hy

/-! ### shape of the generator's yields -/

theorem boundary_yields (g : Nat → Bool) (st : FSt) (j cur cd : Nat) (hinv : Inv g st j cur) (hcd : st.pd < cd) :
    ((fStep g (j + 1) cd st.pd st).2.map (·.2)).Pairwise (· < ·) ∧
    ∀ y ∈ (fStep g (j + 1) cd st.pd st).2, st.pd ≤ y.2 ∧ y.2 < cd := by
  obtain ⟨pwe, pwD, pd⟩ := st
  simp only at hcd ⊢
  rcases hinv with ⟨h1, h2, h3, h4⟩ | ⟨h1, h2, h3, h4, h5⟩ | ⟨h1, h2⟩
  · simp only at h1 h2 h3 h4
    subst h2
    by_cases hj : pwe = j
    · subst hj
      by_cases hg : g (pwe + 1) = true <;> simp [fStep, h1, hcd, hg]
    · have hne : j ≠ pwe := fun h => hj h.symm
      by_cases hg : g (j + 1) = true <;> by_cases hd : pwD + 1 < cd <;>
        simp [fStep, h1, hcd, hg, hne, hd]
  · simp only at h1 h2 h3 h4 h5
    have hnp : ¬ pd ≤ pwD := by omega
    have hne : j ≠ pwe := by omega
    by_cases hg : g (j + 1) = true <;> by_cases hd : pd + 1 < cd <;>
      simp [fStep, h1, hcd, hg, hd, hnp, hne]
  · simp only at h1 h2
    by_cases hg : g (j + 1) = true <;> simp [fStep, h1, hcd, hg]

theorem fLoop_sorted (g : Nat → Bool) (N : Nat) : ∀ (ds : List Nat) (j : Nat) (st : FSt) (cur : Nat),
    Inv g st j cur → st.pd < N → (∀ d ∈ ds, d < N) → (st.pd :: ds).Pairwise (· ≤ ·) →
    ((fLoop g (ds ++ [N]) (j + 1) st.pd st).map (·.2)).Pairwise (· < ·) ∧
    ∀ y ∈ fLoop g (ds ++ [N]) (j + 1) st.pd st, st.pd ≤ y.2 ∧ y.2 < N := by
  intro ds
  induction ds with
  | nil =>
    intro j st cur hinv hN _ _
    have := boundary_yields g st j cur N hinv hN
    simpa [fLoop] using this
  | cons d ds ih =>
    intro j st cur hinv hN hlt hsorted
    have hdN : d < N := hlt d (List.mem_cons_self ..)
    have hpd : st.pd ≤ d := (List.pairwise_cons.mp hsorted).1 d (List.mem_cons_self ..)
    have hsorted' : (d :: ds).Pairwise (· ≤ ·) := (List.pairwise_cons.mp hsorted).2
    have hlt' : ∀ x ∈ ds, x < N := fun x hx => hlt x (List.mem_cons_of_mem _ hx)
    by_cases hb : d = st.pd
    · obtain ⟨hy, hinv', hpd', _⟩ := same_dump_step g st j cur d hinv hb
      have hsorted'' : ((fStep g (j + 1) d st.pd st).1.pd :: ds).Pairwise (· ≤ ·) := by
        rw [hpd', ← hb]; exact hsorted'
      have := ih (j + 1) (fStep g (j + 1) d st.pd st).1 cur hinv' (by omega) hlt' hsorted''
      simp only [List.cons_append, fLoop, hy, List.nil_append]
      rw [hpd'] at this
      rw [← hb] at this
      rw [hb] at this ⊢
      rw [← hb]
      simpa [hb] using this
    · have hlt2 : st.pd < d := by omega
      obtain ⟨cur', hinv', hpd', _, _⟩ := boundary_step g N st j cur d hinv hlt2 [] []
      have hsorted'' : ((fStep g (j + 1) d st.pd st).1.pd :: ds).Pairwise (· ≤ ·) := by
        rw [hpd']; exact hsorted'
      obtain ⟨ih1, ih2⟩ := ih (j + 1) (fStep g (j + 1) d st.pd st).1 cur' hinv' (by omega) hlt' hsorted''
      rw [hpd'] at ih1 ih2
      obtain ⟨b1, b2⟩ := boundary_yields g st j cur d hinv hlt2
      simp only [List.cons_append, fLoop, List.map_append]
      refine ⟨List.pairwise_append.mpr ⟨b1, ih1, ?_⟩, ?_⟩
      · intro a ha b hb'
        simp only [List.mem_map] at ha hb'
        obtain ⟨y, hy, rfl⟩ := ha
        obtain ⟨z, hz, rfl⟩ := hb'
        have := (b2 y hy).2
        have := (ih2 z hz).1
        omega
      · intro y hy
        simp only [List.mem_append] at hy
        rcases hy with hy | hy
        · have := b2 y hy; omega
        · have := ih2 y hy; omega

theorem fLoop_idx_lt (g : Nat → Bool) : ∀ (suf : List Nat) (ce lastD : Nat) (fs : FSt),
    fs.pwe + 1 ≤ ce → ∀ y ∈ fLoop g suf ce lastD fs, y.1 + 1 < ce + suf.length := by
  intro suf
  induction suf with
  | nil => intro ce lastD fs _ y hy; simp [fLoop] at hy
  | cons cd rest ih =>
    intro ce lastD fs hle y hy
    simp only [fLoop, List.mem_append] at hy
    have hstep : (fStep g ce cd lastD fs).1.pwe + 1 ≤ ce + 1 ∧
        ∀ z ∈ (fStep g ce cd lastD fs).2, z.1 + 1 ≤ ce := by
      obtain ⟨pwe, pwD, pd⟩ := fs
      simp only at hle
      simp only [fStep]
      by_cases hb : cd > pd <;> by_cases hg : g ce = true <;> by_cases hgp : g pwe = false <;>
        by_cases he : ce - 1 = pwe <;> simp [hb, hg, hgp, he]
      all_goals first
        | omega
        | (intros; omega)
        | (refine ⟨by omega, ?_⟩; intros; omega)
    rcases hy with hy | hy
    · have := hstep.2 y hy
      simp only [List.length_cons]; omega
    · have := ih (ce + 1) cd _ hstep.1 y hy
      simp only [List.length_cons]; omega

end Categorical
