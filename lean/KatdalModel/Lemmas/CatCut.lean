/-
  C10 lemmas, part 4: the window cut of `sensor_to_categorical` (`s2cCutEv`) on a list of events
  that is split into prior / inside / after parts, and the searchsorted facts behind `dumpIndex`.
-/
import KatdalModel.Lemmas.CatGlue
open Np

namespace Categorical

set_option linter.unusedSimpArgs false

variable {V : Type}

/-! ### takeWhile on split lists -/

theorem takeWhile_split {γ : Type} (p : γ → Bool) : ∀ (X Y : List γ), (∀ x ∈ X, p x = true) → (∀ y ∈ Y, p y = false) →
    (X ++ Y).takeWhile p = X := by
  intro X
  induction X with
  | nil =>
    intro Y _ hY
    cases Y with
    | nil => rfl
    | cons y t => simp [List.takeWhile, hY y (List.mem_cons_self ..)]
  | cons x t ih =>
    intro Y hX hY
    simp only [List.cons_append, List.takeWhile, hX x (List.mem_cons_self ..)]
    rw [ih Y (fun z hz => hX z (List.mem_cons_of_mem _ hz)) hY]

theorem take_append_len {γ : Type} (X Y : List γ) (n : Nat) (h : X.length = n) : (X ++ Y).take n = X := by
  subst h; simp

theorem drop_append_len {γ : Type} (X Y : List γ) (n : Nat) (h : X.length = n) : (X ++ Y).drop n = Y := by
  subst h; simp

/-! ### the cut -/

/-- events split into those before the first dump (`P`), inside the dumps (`W`) and after the last
    dump (`A`): the cut keeps the last of `P` (moved to dump 0) and all of `W`; the flag
    `has_prior_event` says whether `P` is non-empty. -/
theorem cutEv_split (N : Nat) (hN : 0 < N) (tr : Option (V → V)) (P W A : List (Int × V))
    (hP : ∀ e ∈ P, e.1 < 0) (hW : ∀ e ∈ W, 0 ≤ e.1 ∧ e.1 < (N : Int)) (hA : ∀ e ∈ A, (N : Int) ≤ e.1) :
    s2cCutEv ((P ++ W ++ A).map Prod.fst) ((P ++ W ++ A).map Prod.snd) N tr =
      let f : V → V := trFun tr
      match P.getLast? with
      | none => (W.map (fun e => f e.2), W.map (fun e => e.1.toNat), false)
      | some pl => (f pl.2 :: W.map (fun e => f e.2), 0 :: W.map (fun e => e.1.toNat), true) := by
  have hmapf : ∀ (l : List V), (match tr with | some f => l.map f | none => l) =
      l.map (match tr with | some f => f | none => id) := by
    intro l; cases tr <;> simp
  have hWA : ∀ y ∈ (W ++ A).map Prod.fst, decide (y ≤ (-1 : Int)) = false := by
    intro y hy
    simp only [List.mem_map, List.mem_append] at hy
    obtain ⟨e, he, rfl⟩ := hy
    simp only [decide_eq_false_iff_not]
    rcases he with he | he
    · have := (hW e he).1; omega
    · have := hA e he; omega
  have hWlt : ∀ x ∈ W.map Prod.fst, decide (x < (N : Int)) = true := by
    intro x hx
    simp only [List.mem_map] at hx
    obtain ⟨e, he, rfl⟩ := hx
    simpa using (hW e he).2
  have hAge : ∀ y ∈ A.map Prod.fst, decide (y < (N : Int)) = false := by
    intro y hy
    simp only [List.mem_map] at hy
    obtain ⟨e, he, rfl⟩ := hy
    have := hA e he
    simp only [decide_eq_false_iff_not]; omega
  rcases List.eq_nil_or_concat P with hPnil | ⟨P', pl, hPc⟩
  · subst hPnil
    have hfp0 : searchsortedRight (([] ++ W ++ A).map Prod.fst) (-1) = 0 := by
      simp only [searchsortedRight, List.nil_append]
      rw [show (W ++ A).map Prod.fst = [] ++ (W ++ A).map Prod.fst by simp]
      rw [takeWhile_split _ [] _ (by simp) hWA]; rfl
    have hopl : searchsortedLeft (([] ++ W ++ A).map Prod.fst) (N : Int) = W.length := by
      simp only [searchsortedLeft, List.nil_append, List.map_append]
      rw [takeWhile_split _ _ _ hWlt hAge]; simp
    simp only [s2cCutEv, hfp0, Nat.lt_irrefl, gt_iff_lt, decide_false, Bool.false_eq_true, if_false, hopl, pySlice, List.getLast?_nil]
    simp only [List.nil_append, List.map_append, List.drop_zero]
    rw [take_append_len _ _ _ (by simp), take_append_len _ _ _ (by simp)]
    cases tr <;> simp [List.map_map, Function.comp, trFun]
  · subst hPc
    have hP'neg : ∀ x ∈ P'.map Prod.fst, decide (x ≤ (-1 : Int)) = true := by
      intro x hx
      simp only [List.mem_map] at hx
      obtain ⟨e, he, rfl⟩ := hx
      have := hP e (by simp [he])
      simp only [decide_eq_true_eq]; omega
    have hplneg : pl.1 < 0 := hP pl (by simp)
    have hfp0 : searchsortedRight ((P'.concat pl ++ W ++ A).map Prod.fst) (-1) = P'.length + 1 := by
      simp only [searchsortedRight, List.concat_eq_append, List.append_assoc, List.map_append]
      rw [← List.append_assoc]
      have hX : ∀ x ∈ List.map Prod.fst P' ++ List.map Prod.fst [pl], decide (x ≤ (-1 : Int)) = true := by
        intro x hx
        simp only [List.mem_append, List.map_cons, List.map_nil, List.mem_singleton] at hx
        rcases hx with hx | rfl
        · exact hP'neg x hx
        · simp only [decide_eq_true_eq]; omega
      have hY : ∀ y ∈ List.map Prod.fst W ++ List.map Prod.fst A, decide (y ≤ (-1 : Int)) = false := by
        intro y hy
        apply hWA
        simpa using hy
      rw [takeWhile_split _ _ _ hX hY]
      simp
    have hset : ((P'.concat pl ++ W ++ A).map Prod.fst).set P'.length 0 =
        (P'.map Prod.fst ++ 0 :: W.map Prod.fst) ++ A.map Prod.fst := by
      simp only [List.concat_eq_append, List.append_assoc, List.map_append, List.map_cons, List.map_nil,
        List.cons_append, List.nil_append]
      rw [show P'.length = (P'.map Prod.fst).length by simp, List.set_append_right _ _ (Nat.le_refl _)]
      simp
    have hXlt : ∀ x ∈ P'.map Prod.fst ++ 0 :: W.map Prod.fst, decide (x < (N : Int)) = true := by
      intro x hx
      simp only [List.mem_append, List.mem_cons] at hx
      rcases hx with hx | rfl | hx
      · have := hP'neg x hx
        simp only [decide_eq_true_eq] at this ⊢; omega
      · simp only [decide_eq_true_eq]; omega
      · exact hWlt x hx
    have hopl : searchsortedLeft (((P'.concat pl ++ W ++ A).map Prod.fst).set P'.length 0) (N : Int) =
        P'.length + 1 + W.length := by
      rw [hset]
      simp only [searchsortedLeft]
      rw [takeWhile_split _ _ _ hXlt hAge]
      simp; omega
    have hpos : P'.length + 1 > 0 := by omega
    simp only [s2cCutEv, hfp0, hpos, decide_true, if_true, Nat.add_sub_cancel, hopl, pySlice]
    rw [hset]
    have hgl : (P'.concat pl).getLast? = some pl := by simp
    simp only [hgl]
    have hvals : (P'.concat pl ++ W ++ A).map Prod.snd = (P'.map Prod.snd ++ pl.2 :: W.map Prod.snd) ++ A.map Prod.snd := by
      simp
    rw [hvals]
    rw [take_append_len _ _ _ (by simp; omega), take_append_len _ _ _ (by simp; omega)]
    rw [drop_append_len _ _ _ (by simp), drop_append_len _ _ _ (by simp)]
    cases tr <;> simp [List.map_map, Function.comp, trFun]

/-! ### searchsorted facts -/

theorem takeWhile_len_mono {γ : Type} (p q : γ → Bool) (h : ∀ x, p x = true → q x = true) :
    ∀ (l : List γ), (l.takeWhile p).length ≤ (l.takeWhile q).length := by
  intro l
  induction l with
  | nil => simp
  | cons a t ih =>
    simp only [List.takeWhile]
    cases hp : p a with
    | false => simp
    | true => simp [h a hp]; exact ih

theorem dumpIndex_mono (ends : List Int) (period t t' : Int) (h : t ≤ t') :
    dumpIndex ends period t ≤ dumpIndex ends period t' := by
  simp only [dumpIndex, searchsortedLeft]
  have := takeWhile_len_mono (fun x : Int => decide (x < t)) (fun x : Int => decide (x < t'))
    (by intro x hx; simp only [decide_eq_true_eq] at hx ⊢; omega) ((ends.headD 0 - period) :: ends)
  omega

theorem filter_eq_takeWhile_sorted (t : Int) : ∀ (E : List Int), E.Pairwise (· ≤ ·) →
    E.filter (· < t) = E.takeWhile (· < t) := by
  intro E
  induction E with
  | nil => intro _; rfl
  | cons a r ih =>
    intro hs
    have hs' := List.pairwise_cons.mp hs
    by_cases ha : a < t
    · simp only [List.filter_cons, List.takeWhile_cons, ha, decide_true, if_true]
      rw [ih hs'.2]
    · simp only [List.filter_cons, List.takeWhile_cons, ha, decide_false, Bool.false_eq_true, if_false]
      apply List.filter_eq_nil_iff.mpr
      intro x hx
      have := hs'.1 x hx
      simp only [decide_eq_true_eq]; omega

theorem dumpOf_eq_dumpIndex (ends : List Int) (period t : Int)
    (hE : ((ends.headD 0 - period) :: ends).Pairwise (· ≤ ·)) :
    dumpOf ends period t = dumpIndex ends period t := by
  simp only [dumpOf, dumpIndex, searchsortedLeft]
  rw [filter_eq_takeWhile_sorted t _ hE]

theorem pairwise_zip_fst {γ δ : Type} (R : γ → γ → Prop) : ∀ (a : List γ) (b : List δ), a.Pairwise R →
    (a.zip b).Pairwise (fun x y => R x.1 y.1) := by
  intro a
  induction a with
  | nil => intro b _; simp
  | cons x t ih =>
    intro b h
    cases b with
    | nil => simp
    | cons y u =>
      have h' := List.pairwise_cons.mp h
      simp only [List.zip_cons_cons]
      refine List.pairwise_cons.mpr ⟨?_, ih u h'.2⟩
      intro z hz
      exact h'.1 z.1 (List.of_mem_zip hz).1

theorem split_lt {γ : Type} (b : Int) : ∀ (L : List (Int × γ)), L.Pairwise (fun x y => x.1 ≤ y.1) →
    ∃ X Y, L = X ++ Y ∧ (∀ x ∈ X, x.1 < b) ∧ (∀ y ∈ Y, b ≤ y.1) := by
  intro L
  induction L with
  | nil => intro _; exact ⟨[], [], rfl, by simp, by simp⟩
  | cons e t ih =>
    intro hs
    have hs' := List.pairwise_cons.mp hs
    by_cases he : e.1 < b
    · obtain ⟨X, Y, hL, hX, hY⟩ := ih hs'.2
      refine ⟨e :: X, Y, by simp [hL], ?_, hY⟩
      intro x hx
      simp only [List.mem_cons] at hx
      rcases hx with rfl | hx
      · exact he
      · exact hX x hx
    · refine ⟨[], e :: t, rfl, by simp, ?_⟩
      intro y hy
      simp only [List.mem_cons] at hy
      rcases hy with rfl | hy
      · omega
      · have := hs'.1 y hy; omega

end Categorical
