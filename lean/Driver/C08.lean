import Driver.Common
import KatdalModel.Model.ChunkStore
import KatdalModel.Generated.TablesC08
open Np Drv ChunkStore

namespace DrvC08

def hexVal (c : Char) : Option Nat :=
  if '0' ≤ c ∧ c ≤ '9' then some (c.toNat - '0'.toNat)
  else if 'a' ≤ c ∧ c ≤ 'f' then some (c.toNat - 'a'.toNat + 10)
  else none

def parseHexAux : List Char → Option Bytes
  | [] => some []
  | a :: b :: t => do
    let x ← hexVal a; let y ← hexVal b
    let r ← parseHexAux t
    pure (UInt8.ofNat (16 * x + y) :: r)
  | _ => none

/-- `-` = empty -/
def parseHex (s : String) : Option Bytes := if s = "-" then some [] else parseHexAux s.toList

def hexDigit (n : Nat) : Char := if n < 10 then Char.ofNat (48 + n) else Char.ofNat (87 + n)

def showHex (b : Bytes) : String :=
  if b.isEmpty then "-" else
  String.ofList (b.foldr (fun x acc => hexDigit (x.toNat / 16) :: hexDigit (x.toNat % 16) :: acc) [])

def showErr (e : CErr) : String := s!"E:{e.name}"

/-- header oracle: `bad` | `ok:<itemsize>:<count>:<hasobj>` -/
def parseOracle (s : String) : Option (Option Hdr) :=
  match s.splitOn ":" with
  | ["bad"] => some none
  | ["ok", isz, cnt, ob] => do
    let isz ← isz.toNat?; let cnt ← cnt.toNat?
    pure (some ⟨[], [cnt], false, ob = "1", isz⟩)
  | _ => none

def mroOf (c : String) : List String := (TablesC08.excMro.lookup c).getD [c]

def mapOf (store : String) : Option (List (String × String)) :=
  match store with
  | "base" => some TablesC08.baseErrorMap
  | "npy" => some TablesC08.npyErrorMap
  | "dict" => some TablesC08.dictErrorMap
  | "s3" => some TablesC08.s3ErrorMap
  | _ => none

/-- `O` | `W:<hex>` | `T:<n>` | `C` | `R` on temp name 1 / final name 2 -/
def parseOp (s : String) : Option (FsOp Nat) :=
  match s.splitOn ":" with
  | ["O"] => some (.openTrunc 1)
  | ["W", h] => (parseHex h).map (.write 1)
  | ["T", n] => n.toNat?.map (.ftruncate 1)
  | ["C"] => some .close
  | ["R"] => some (.rename 1 2)
  | _ => none

def showOpt (o : Option Bytes) : String := match o with | none => "none" | some b => showHex b

/-- requests:
    read <hex> <sched> <oracle>        -> `ok <bodyhex>` | E:ValueError | E:IncompleteRead
    classify <store> <class>           -> class leaving `_standard_errors`
    swallow <default|placeholder> <class> -> swallowed | raised
    noraise <class>                    -> returned | raised
    status <code> <ignored>            -> class | none
    fs <oldhex|none> <ops>             -> `<word|prefix|no> tmp=<..> fin=<..>`
    putops <direct> <pieces hex,..> <pad> -> the model's op sequence -/
def step (line : String) : String :=
  match line.splitOn " " with
  | ["read", hx, sch, orc] =>
    match parseHex hx, (if sch = "-" then some [] else parseNatList sch), parseOracle orc with
    | some data, some sched, some orc =>
      match readArray (fun _ => orc) ⟨data, sched⟩ with
      | .ok (_, body) => s!"ok {showHex body}"
      | .error e => showErr e
    | _, _, _ => "bad-op"
  | ["classify", store, cls] =>
    match mapOf store with
    | some m => standardised m (mroOf cls)
    | none => "bad-op"
  | ["swallow", which, cls] =>
    let catches := if which = "default" then TablesC08.defaultCatches else TablesC08.placeholderCatches
    match swallow catches mroOf () (.error cls) with
    | .ok _ => "swallowed"
    | .error _ => "raised"
  | ["noraise", cls] =>
    match noraise TablesC08.noraiseCatches mroOf (.error cls) with
    | .ok _ => "returned"
    | .error _ => "raised"
  | ["status", code, ign] =>
    match code.toNat?, (if ign = "-" then some [] else parseNatList ign) with
    | some c, some ig => (httpStatusError c ig).getD "none"
    | _, _ => "bad-op"
  | "fs" :: old :: ops =>
    match (if old = "none" then some none else (parseHex old).map some), ops.mapM parseOp with
    | some old, some ops =>
      let fs0 : FS Nat := fun p => if p = 2 then old else none
      let fs1 := runOps ops fs0
      let kind := if isPutWord 1 2 ops then "word" else if isPutPrefix 1 ops then "prefix" else "no"
      s!"{kind} tmp={showOpt (fs1 1)} fin={showOpt (fs1 2)}"
    | _, _ => "bad-op"
  | ["putops", direct, pieces, pad] =>
    match (if pieces = "-" then some [] else (pieces.splitOn ",").mapM parseHex), pad.toNat? with
    | some ps, some pad =>
      let ops : List (FsOp Nat) :=
        if direct = "1" then putOpsDirect 1 2 ps.flatten pad else putOpsBuffered 1 2 ps
      " ".intercalate (ops.map fun o => match o with
        | .openTrunc _ => "O" | .write _ b => s!"W:{showHex b}" | .ftruncate _ n => s!"T:{n}"
        | .close => "C" | .rename _ _ => "R" | .junk _ _ => "J")
    | _, _ => "bad-op"
  | _ => "bad-op"

end DrvC08

def main : IO Unit := Drv.loop DrvC08.step
