/-
  C10 lemmas, part 1: the generator `_single_event_per_dump`.

  `fStep`/`fLoop`  array-free restatement of the mirror `sepdStep`/`sepdLoop` (the tracked value
                   `pwD` replaces the read `events[previous_winning_event]`, `lastD` replaces the read
                   `events[current_event - 1]`); yields carry their dump.
  `ruleS`          the documented rule as a left-to-right pass over (dump, event) pairs.
  `fLoop_rule`     (B) the yields of `fLoop`, written out dump by dump, are `ruleS`.
  `sepd_eq_fLoop`  (A) the mirror with its in-place mutation computes exactly `fLoop`.
-/
import KatdalModel.Model.Categorical
open Np

namespace Categorical

set_option linter.unusedSimpArgs false

/-! ### definitions -/

structure FSt where
  pwe : Nat
  pwD : Nat
  pd : Nat
  deriving DecidableEq, Repr

/-- one loop iteration without the array: `lastD` = dump of event `ce - 1` before any push -/
def fStep (g : Nat → Bool) (ce cd lastD : Nat) (st : FSt) : FSt × List (Nat × Nat) :=
  let r : FSt × List (Nat × Nat) :=
    if cd > st.pd then
      let eads := ce - 1
      let pwe := if g st.pwe = false then eads else st.pwe
      let pwD := if g st.pwe = false then lastD else st.pwD
      let y1 : List (Nat × Nat) := if st.pd ≤ pwD ∧ pwD < cd then [(pwe, pwD)] else []
      if eads ≠ pwe then
        ({ pwe := eads, pwD := lastD + 1, pd := cd },
          y1 ++ (if cd > lastD + 1 then [(eads, lastD + 1)] else []))
      else ({ pwe := pwe, pwD := pwD, pd := cd }, y1)
    else (st, [])
  if g ce = true then ({ r.1 with pwe := ce, pwD := cd }, r.2) else r

def fLoop (g : Nat → Bool) : List Nat → Nat → Nat → FSt → List (Nat × Nat)
  | [], _, _, _ => []
  | cd :: rest, ce, lastD, st =>
    (fStep g ce cd lastD st).2 ++ fLoop g rest (ce + 1) cd (fStep g ce cd lastD st).1

/-- yields written out dump by dump: `cur` is the value of the open segment, `a` the next dump -/
def expandFrom {α : Type} (N : Nat) : Nat → α → List (α × Nat) → List α
  | a, cur, [] => List.replicate (N - a) cur
  | a, cur, (y, d) :: rest => List.replicate (d - a) cur ++ expandFrom N d y rest

/-- the documented rule as one pass over the events in time order: `p` = current dump, `best` =
    latest greedy value in effect during dump `p` so far, `last` = value in effect now -/
def ruleS {α : Type} (g : α → Bool) (N : Nat) : Nat → Option α → α → List (Nat × α) → List α
  | p, best, last, [] => if p < N then best.getD last :: List.replicate (N - p - 1) last else []
  | p, best, last, (d, v) :: rest =>
    if d ≤ p then ruleS g N p (if g v = true then some v else best) v rest
    else best.getD last :: (List.replicate (d - p - 1) last ++
      ruleS g N d (if g v = true then some v else if g last = true then some last else none) v rest)

/-! ### small list facts -/

theorem replicate_glue {α : Type} (x : α) (a b c : Nat) (l : List α) (h1 : a ≤ b) (h2 : b ≤ c) :
    List.replicate (b - a) x ++ (List.replicate (c - b) x ++ l) = List.replicate (c - a) x ++ l := by
  rw [← List.append_assoc, List.replicate_append_replicate]
  congr 2
  omega

theorem replicate_glue' {α : Type} (x : α) (a b c : Nat) (h1 : a ≤ b) (h2 : b ≤ c) :
    List.replicate (b - a) x ++ List.replicate (c - b) x = List.replicate (c - a) x := by
  rw [List.replicate_append_replicate]
  congr 1
  omega

theorem cons_replicate {α : Type} (x : α) (n m : Nat) (h : m = n + 1) :
    x :: List.replicate n x = List.replicate m x := by
  subst h; rfl

theorem rep_cons {α : Type} (x : α) (n : Nat) (X : List α) (h : 0 < n) :
    List.replicate n x ++ X = x :: (List.replicate (n - 1) x ++ X) := by
  cases n with
  | zero => omega
  | succ k => simp [List.replicate_succ]

theorem rep_snoc {α : Type} (x : α) (a b : Nat) (L : List α) (h : a ≤ b) :
    List.replicate (b + 1 - a) x ++ L = List.replicate (b - a) x ++ x :: L := by
  have : b + 1 - a = (b - a) + 1 := by omega
  rw [this, List.replicate_succ']
  simp

/-! ### (B) the yields of `fLoop` are the rule -/

/-- the three situations the generator can be in between two events (`j` = index of the event
    just consumed, `cur` = event whose segment is open) -/
def Inv (g : Nat → Bool) (st : FSt) (j cur : Nat) : Prop :=
  (g st.pwe = true ∧ st.pwD = st.pd ∧ st.pwe ≤ j ∧ (g j = true → st.pwe = j)) ∨
  (g st.pwe = true ∧ st.pwD < st.pd ∧ cur = st.pwe ∧ st.pwe < j ∧ g j = false) ∨
  (g st.pwe = false ∧ g j = false)

def bestOf (g : Nat → Bool) (st : FSt) : Option Nat := if g st.pwe = true then some st.pwe else none

theorem boundary_step (g : Nat → Bool) (N : Nat) (st : FSt) (j cur cd : Nat)
    (hinv : Inv g st j cur) (hcd : st.pd < cd) (tail : List (Nat × Nat)) (X : List Nat) :
    ∃ cur', Inv g (fStep g (j + 1) cd st.pd st).1 (j + 1) cur' ∧ (fStep g (j + 1) cd st.pd st).1.pd = cd ∧
      bestOf g (fStep g (j + 1) cd st.pd st).1 =
        (if g (j + 1) = true then some (j + 1) else if g j = true then some j else none) ∧
      ((∀ a', a' ≤ cd → expandFrom N a' cur' tail = List.replicate (cd - a') cur' ++ X) →
        ∀ a, a ≤ st.pd → expandFrom N a cur ((fStep g (j + 1) cd st.pd st).2 ++ tail) =
          List.replicate (st.pd - a) cur ++
            ((bestOf g st).getD j :: (List.replicate (cd - st.pd - 1) j ++ X))) := by
  obtain ⟨pwe, pwD, pd⟩ := st
  simp only at hcd ⊢
  rcases hinv with ⟨h1, h2, h3, h4⟩ | ⟨h1, h2, h3, h4, h5⟩ | ⟨h1, h2⟩
  · -- S1: the winner is the latest greedy event of the current dump
    simp only at h1 h2 h3 h4
    subst h2
    by_cases hj : pwe = j
    · subst hj
      by_cases hg : g (pwe + 1) = true
      · refine ⟨pwe, ?_, ?_, ?_, ?_⟩
        · simp [fStep, h1, hcd, hg, Inv]
        · simp [fStep, h1, hcd, hg]
        · simp [fStep, h1, hcd, hg, bestOf]
        · intro hx a ha
          simp [fStep, h1, hcd, hg, bestOf, expandFrom]
          rw [hx pwD (by omega)]
          exact rep_cons _ _ _ (by omega)
      · refine ⟨pwe, ?_, ?_, ?_, ?_⟩
        · simp [fStep, h1, hcd, hg, Inv]
        · simp [fStep, h1, hcd, hg]
        · simp [fStep, h1, hcd, hg, bestOf]
        · intro hx a ha
          simp [fStep, h1, hcd, hg, bestOf, expandFrom]
          rw [hx pwD (by omega)]
          exact rep_cons _ _ _ (by omega)
    · have hgj : g j = false := by
        cases hgj : g j with
        | false => rfl
        | true => exact absurd (h4 hgj) hj
      have hne : j ≠ pwe := fun h => hj h.symm
      by_cases hg : g (j + 1) = true <;> by_cases hd : pwD + 1 < cd
      · refine ⟨j, ?_, ?_, ?_, ?_⟩
        · simp [fStep, h1, hcd, hg, Inv, hne, hd]
        · simp [fStep, h1, hcd, hg, hne, hd]
        · simp [fStep, h1, hcd, hg, bestOf, hne, hd]
        · intro hx a ha
          simp [fStep, h1, hcd, hg, bestOf, expandFrom, hne, hd]
          rw [hx (pwD+1) (by omega), Nat.sub_add_eq]
      · refine ⟨pwe, ?_, ?_, ?_, ?_⟩
        · simp [fStep, h1, hcd, hg, Inv, hne, hd]
        · simp [fStep, h1, hcd, hg, hne, hd]
        · simp [fStep, h1, hcd, hg, bestOf, hne, hd]
        · intro hx a ha
          simp [fStep, h1, hcd, hg, bestOf, expandFrom, hne, hd]
          rw [hx pwD (by omega)]
          have : cd - pwD - 1 = 0 := by omega
          have h1' : cd - pwD = 1 := by omega
          simp [this, h1']
      · refine ⟨j, ?_, ?_, ?_, ?_⟩
        · simp [fStep, h1, hcd, hg, Inv, hne, hd, hgj]
        · simp [fStep, h1, hcd, hg, hne, hd]
        · simp [fStep, h1, hcd, hg, bestOf, hne, hd, hgj]
        · intro hx a ha
          simp [fStep, h1, hcd, hg, bestOf, expandFrom, hne, hd]
          rw [hx (pwD+1) (by omega), Nat.sub_add_eq]
      · refine ⟨pwe, ?_, ?_, ?_, ?_⟩
        · simp [fStep, h1, hcd, hg, Inv, hne, hd, hgj]
        · simp [fStep, h1, hcd, hg, hne, hd]
        · simp [fStep, h1, hcd, hg, bestOf, hne, hd, hgj]
        · intro hx a ha
          simp [fStep, h1, hcd, hg, bestOf, expandFrom, hne, hd]
          rw [hx pwD (by omega)]
          have : cd - pwD - 1 = 0 := by omega
          have h1' : cd - pwD = 1 := by omega
          simp [this, h1']
  · -- S2: the carried greedy event (already yielded, segment open) wins again
    simp only at h1 h2 h3 h4 h5
    subst h3
    have hne : j ≠ cur := by omega
    have hnp : ¬ pd ≤ pwD := by omega
    by_cases hg : g (j + 1) = true <;> by_cases hd : pd + 1 < cd
    · refine ⟨j, ?_, ?_, ?_, ?_⟩
      · simp [fStep, h1, hcd, hg, Inv, hne, hd]
      · simp [fStep, h1, hcd, hg, hne, hd]
      · simp [fStep, h1, hcd, hg, bestOf, hne, hd]
      · intro hx a ha
        simp [fStep, h1, hcd, hg, bestOf, expandFrom, hne, hd, hnp]
        rw [hx (pd+1) (by omega), Nat.sub_add_eq]
        exact rep_snoc _ _ _ _ ha
    · refine ⟨cur, ?_, ?_, ?_, ?_⟩
      · simp [fStep, h1, hcd, hg, Inv, hne, hd]
      · simp [fStep, h1, hcd, hg, hne, hd]
      · simp [fStep, h1, hcd, hg, bestOf, hne, hd]
      · intro hx a ha
        simp [fStep, h1, hcd, hg, bestOf, expandFrom, hne, hd, hnp]
        rw [hx a (by omega)]
        have : cd = pd + 1 := by omega
        subst this
        simpa using rep_snoc cur a pd X ha
    · refine ⟨j, ?_, ?_, ?_, ?_⟩
      · simp [fStep, h1, hcd, hg, Inv, hne, hd, h5]
      · simp [fStep, h1, hcd, hg, hne, hd]
      · simp [fStep, h1, hcd, hg, bestOf, hne, hd, h5]
      · intro hx a ha
        simp [fStep, h1, hcd, hg, bestOf, expandFrom, hne, hd, hnp]
        rw [hx (pd+1) (by omega), Nat.sub_add_eq]
        exact rep_snoc _ _ _ _ ha
    · refine ⟨cur, ?_, ?_, ?_, ?_⟩
      · simp [fStep, h1, hcd, hg, Inv, hne, hd, h5]
      · simp [fStep, h1, hcd, hg, hne, hd]
      · simp [fStep, h1, hcd, hg, bestOf, hne, hd, h5]
      · intro hx a ha
        simp [fStep, h1, hcd, hg, bestOf, expandFrom, hne, hd, hnp]
        rw [hx a (by omega)]
        have : cd = pd + 1 := by omega
        subst this
        simpa using rep_snoc cur a pd X ha
  · -- S3: nothing greedy in effect: the last event of the dump wins
    simp only at h1 h2
    by_cases hg : g (j + 1) = true
    · refine ⟨j, ?_, ?_, ?_, ?_⟩
      · simp [fStep, h1, hcd, hg, Inv]
      · simp [fStep, h1, hcd, hg]
      · simp [fStep, h1, hcd, hg, bestOf]
      · intro hx a ha
        simp [fStep, h1, hcd, hg, bestOf, expandFrom]
        rw [hx pd (by omega)]
        exact rep_cons _ _ _ (by omega)
    · refine ⟨j, ?_, ?_, ?_, ?_⟩
      · simp [fStep, h1, hcd, hg, Inv, h2]
      · simp [fStep, h1, hcd, hg]
      · simp [fStep, h1, hcd, hg, bestOf, h2]
      · intro hx a ha
        simp [fStep, h1, hcd, hg, bestOf, expandFrom]
        rw [hx pd (by omega)]
        exact rep_cons _ _ _ (by omega)

/-- no boundary: the event belongs to the current dump -/
theorem same_dump_step (g : Nat → Bool) (st : FSt) (j cur d : Nat) (hinv : Inv g st j cur) (hd : d = st.pd) :
    (fStep g (j + 1) d st.pd st).2 = [] ∧ Inv g (fStep g (j + 1) d st.pd st).1 (j + 1) cur ∧
      (fStep g (j + 1) d st.pd st).1.pd = st.pd ∧
      bestOf g (fStep g (j + 1) d st.pd st).1 = (if g (j + 1) = true then some (j + 1) else bestOf g st) := by
  obtain ⟨pwe, pwD, pd⟩ := st
  simp only at hd
  subst hd
  by_cases hg : g (j + 1) = true
  · simp [fStep, hg, Inv, bestOf]
  · simp only [Bool.not_eq_true] at hg
    rcases hinv with ⟨h1, h2, h3, h4⟩ | ⟨h1, h2, h3, h4, h5⟩ | ⟨h1, h2⟩
    · simp only at h1 h2 h3 h4
      refine ⟨by simp [fStep, hg], ?_, by simp [fStep, hg], by simp [fStep, hg, bestOf]⟩
      left
      simp [fStep, hg, h1, h2]
      omega
    · simp only at h1 h2 h3 h4 h5
      refine ⟨by simp [fStep, hg], ?_, by simp [fStep, hg], by simp [fStep, hg, bestOf]⟩
      right; left
      simp [fStep, hg, h1, h2, h3]
      omega
    · simp only at h1 h2
      refine ⟨by simp [fStep, hg], ?_, by simp [fStep, hg], by simp [fStep, hg, bestOf]⟩
      right; right
      simp [fStep, hg, h1]

/-- **(B)** the yields of the array-free generator, written out dump by dump, are the rule -/
theorem fLoop_rule (g : Nat → Bool) (N : Nat) : ∀ (ds : List Nat) (j : Nat) (st : FSt) (cur a : Nat),
    Inv g st j cur → a ≤ st.pd → st.pd < N → (∀ d ∈ ds, d < N) → (st.pd :: ds).Pairwise (· ≤ ·) →
    g (j + 1 + ds.length) = false →
    expandFrom N a cur (fLoop g (ds ++ [N]) (j + 1) st.pd st) =
      List.replicate (st.pd - a) cur ++ ruleS g N st.pd (bestOf g st) j (ds.zipIdx (j + 1)) := by
  intro ds
  induction ds with
  | nil =>
    intro j st cur a hinv ha hN _ _ hg
    simp only [List.length_nil, Nat.add_zero] at hg
    obtain ⟨cur', _, _, _, hexp⟩ := boundary_step g N st j cur N hinv hN [] []
    have := hexp (by intro a' _; simp [expandFrom]) a ha
    simp only [List.nil_append, fLoop, List.zipIdx_nil, ruleS, hN, if_true]
    simpa using this
  | cons d ds ih =>
    intro j st cur a hinv ha hN hlt hsorted hg
    have hdN : d < N := hlt d (List.mem_cons_self ..)
    have hpd : st.pd ≤ d := (List.pairwise_cons.mp hsorted).1 d (List.mem_cons_self ..)
    have hsorted' : (d :: ds).Pairwise (· ≤ ·) := (List.pairwise_cons.mp hsorted).2
    have hlt' : ∀ x ∈ ds, x < N := fun x hx => hlt x (List.mem_cons_of_mem _ hx)
    have hg' : g (j + 1 + 1 + ds.length) = false := by
      have : j + 1 + (d :: ds).length = j + 1 + 1 + ds.length := by simp; omega
      rw [← this]; exact hg
    by_cases hb : d = st.pd
    · obtain ⟨hy, hinv', hpd', hbest⟩ := same_dump_step g st j cur d hinv hb
      have hsorted'' : ((fStep g (j + 1) d st.pd st).1.pd :: ds).Pairwise (· ≤ ·) := by
        rw [hpd', ← hb]; exact hsorted'
      have := ih (j + 1) (fStep g (j + 1) d st.pd st).1 cur a hinv' (by omega) (by omega) hlt' hsorted'' hg'
      simp only [List.cons_append, fLoop, hy, List.nil_append, List.zipIdx_cons, ruleS]
      rw [hpd', hbest] at this
      have hle : d ≤ st.pd := by omega
      simp only [hle, if_true]
      rw [← hb] at this ⊢
      exact this
    · have hlt2 : st.pd < d := by omega
      obtain ⟨cur', hinv', hpd', hbest, hexp⟩ := boundary_step g N st j cur d hinv hlt2
        (fLoop g (ds ++ [N]) (j + 1 + 1) d (fStep g (j + 1) d st.pd st).1)
        (ruleS g N d (bestOf g (fStep g (j + 1) d st.pd st).1) (j + 1) (ds.zipIdx (j + 1 + 1)))
      have hsorted'' : ((fStep g (j + 1) d st.pd st).1.pd :: ds).Pairwise (· ≤ ·) := by
        rw [hpd']; exact hsorted'
      have hih : ∀ a', a' ≤ d → expandFrom N a' cur'
          (fLoop g (ds ++ [N]) (j + 1 + 1) d (fStep g (j + 1) d st.pd st).1) =
          List.replicate (d - a') cur' ++
            ruleS g N d (bestOf g (fStep g (j + 1) d st.pd st).1) (j + 1) (ds.zipIdx (j + 1 + 1)) := by
        intro a' ha'
        have := ih (j + 1) (fStep g (j + 1) d st.pd st).1 cur' a' hinv' (by omega) (by omega) hlt' hsorted'' hg'
        rw [hpd'] at this
        exact this
      have := hexp hih a ha
      simp only [List.cons_append, fLoop, List.zipIdx_cons, ruleS]
      have hnle : ¬ d ≤ st.pd := by omega
      simp only [hnle, if_false]
      rw [this, hbest]

/-! ### (A) the mirror with its in-place mutation computes `fLoop` -/

theorem getNat_append_right {α} (a : List α) (x : α) (b : List α) : getNat (a ++ x :: b) a.length = .ok x := by
  simp [getNat]

theorem getNat_append_right1 {α} (a : List α) (x y : α) (b : List α) :
    getNat (a ++ x :: y :: b) (a.length + 1) = .ok y := by
  simp [getNat]

theorem getNat_of_getElem? {α} (l : List α) (i : Nat) (x : α) (h : l[i]? = some x) : getNat l i = .ok x := by
  simp [getNat, h]

theorem getNat_bool (l : List Bool) (i : Nat) (h : i < l.length) : getNat l i = .ok (l.getD i false) := by
  simp [getNat, List.getD, List.getElem?_eq_getElem h]

theorem getElem?_prefix {α} (a : List α) (x : α) (b : List α) (i : Nat) (v : α)
    (h : (a ++ [x])[i]? = some v) : (a ++ x :: b)[i]? = some v := by
  have : a ++ x :: b = (a ++ [x]) ++ b := by simp
  rw [this]
  have hi : i < (a ++ [x]).length := by
    by_cases hi : i < (a ++ [x]).length
    · exact hi
    · simp [List.getElem?_eq_none (Nat.le_of_not_lt hi)] at h
  rw [List.getElem?_append_left hi]; exact h

theorem sepdStep_sim (greedy : List Bool) (g : Nat → Bool) (hgdef : ∀ i, greedy.getD i false = g i)
    (init' : List Nat) (lastD cd : Nat) (rest : List Nat)
    (st : SepdSt) (fs : FSt) (Y : List (Nat × Nat))
    (hev : st.ev = init' ++ lastD :: cd :: rest)
    (hlen : greedy.length = init'.length + rest.length + 1)
    (hpwe : st.pwe = fs.pwe) (hpd : st.prevDump = fs.pd) (hle : fs.pwe ≤ init'.length)
    (hpwD : (init' ++ [lastD])[fs.pwe]? = some fs.pwD)
    (hout : st.out = Y.map Prod.fst) (hY : ∀ y ∈ Y, init'[y.1]? = some y.2) :
    ∃ x st1, sepdStep greedy (init'.length + 1) st = .ok st1 ∧
      st1.ev = (init' ++ [x]) ++ cd :: rest ∧
      st1.pwe = (fStep g (init'.length + 1) cd lastD fs).1.pwe ∧
      st1.prevDump = (fStep g (init'.length + 1) cd lastD fs).1.pd ∧
      (fStep g (init'.length + 1) cd lastD fs).1.pwe ≤ init'.length + 1 ∧
      (init' ++ [x] ++ [cd])[(fStep g (init'.length + 1) cd lastD fs).1.pwe]? =
        some (fStep g (init'.length + 1) cd lastD fs).1.pwD ∧
      st1.out = (Y ++ (fStep g (init'.length + 1) cd lastD fs).2).map Prod.fst ∧
      ∀ y ∈ Y ++ (fStep g (init'.length + 1) cd lastD fs).2, (init' ++ [x])[y.1]? = some y.2 := by
  obtain ⟨spwe, spd, sev, sout⟩ := st
  obtain ⟨pwe, pwD, pd⟩ := fs
  simp only at hev hpwe hpd hout hle hpwD
  subst hev hout
  obtain rfl := hpwe.symm
  obtain rfl := hpd.symm
  have hgp : getNat greedy pwe = .ok (g pwe) := by rw [← hgdef]; exact getNat_bool _ _ (by omega)
  have hcd : getNat (init' ++ lastD :: cd :: rest) (init'.length + 1) = .ok cd := getNat_append_right1 ..
  have hlast : getNat (init' ++ lastD :: cd :: rest) init'.length = .ok lastD := getNat_append_right ..
  have hpw : getNat (init' ++ lastD :: cd :: rest) pwe = .ok pwD :=
    getNat_of_getElem? _ _ _ (getElem?_prefix _ _ _ _ _ hpwD)
  have hcelt : (init'.length + 1 < greedy.length ∧ g (init'.length + 1) = true) ↔
      g (init'.length + 1) = true := by
    constructor
    · exact fun h => h.2
    · intro h
      refine ⟨?_, h⟩
      by_cases hlt : init'.length + 1 < greedy.length
      · exact hlt
      · rw [← hgdef] at h
        simp [List.getD, List.getElem?_eq_none (Nat.le_of_not_lt hlt)] at h
  have hYl : ∀ a b, (a, b) ∈ Y → ∀ x, (init' ++ [x])[a]? = some b := by
    intro a b hab x
    have := hY (a, b) hab
    simp only at this
    have hlt : a < init'.length := by
      by_cases hlt : a < init'.length
      · exact hlt
      · simp [List.getElem?_eq_none (Nat.le_of_not_lt hlt)] at this
    rw [List.getElem?_append_left hlt]; exact this
  have hne1 : init'.length + 1 ≠ 0 := by omega
  by_cases hb : pd < cd
  · by_cases hgpw : g pwe = true
    · by_cases he : pwe = init'.length
      · -- the winner is the last event of the dump: no push
        subst he
        have hpwD' : pwD = lastD := by simpa using hpwD.symm
        subst hpwD'
        refine ⟨pwD, ?_⟩
        simp only [sepdStep, hgdef, hcd, hgp, hlast, hpw, bind, Except.bind, hb, gt_iff_lt, if_true, pure, Except.pure,
          hcelt, fStep, hgpw, hne1, if_false, Nat.add_sub_cancel]
        by_cases hg : g (init'.length + 1) = true <;> by_cases hy : pd ≤ pwD ∧ pwD < cd
        · simp [hg, hy, hlast]
          rintro a b (hab | ⟨rfl, rfl⟩)
          · exact hYl a b hab pwD
          · simp
        · simp [hg, hy, hlast]
          intro a b hab
          exact hYl a b hab pwD
        · simp [hg, hy, hlast]
          rintro a b (hab | ⟨rfl, rfl⟩)
          · exact hYl a b hab pwD
          · simp
        · simp [hg, hy, hlast]
          intro a b hab
          exact hYl a b hab pwD
      · -- greedy winner earlier in the dump (or carried): the last event is pushed to the next dump
        have hlt : pwe < init'.length := by omega
        have hne : init'.length ≠ pwe := by omega
        have hpwD' : init'[pwe]? = some pwD := by
          rw [List.getElem?_append_left hlt] at hpwD; exact hpwD
        refine ⟨lastD + 1, ?_⟩
        simp only [sepdStep, hgdef, hcd, hgp, hlast, hpw, bind, Except.bind, hb, gt_iff_lt, if_true, pure, Except.pure,
          hcelt, fStep, hgpw, hne1, if_false, Nat.add_sub_cancel]
        have hmem : ∀ a b x, ((a, b) ∈ Y ∨ (a = pwe ∧ b = pwD) ∨ (a = init'.length ∧ b = x)) →
            (init' ++ [x])[a]? = some b := by
          rintro a b x (hab | ⟨rfl, rfl⟩ | ⟨rfl, rfl⟩)
          · exact hYl a b hab x
          · rw [List.getElem?_append_left hlt]; exact hpwD'
          · simp
        by_cases hg : g (init'.length + 1) = true <;> by_cases hy : pd ≤ pwD ∧ pwD < cd <;>
          by_cases hd : lastD + 1 < cd
        all_goals simp [hg, hy, hlast, hpw, hne, hd, hgpw]
        all_goals (intro a b h; apply hmem a b; grind)
    · -- nothing greedy in effect: the last event of the dump wins
      have hgpw' : g pwe = false := by simpa using hgpw
      refine ⟨lastD, ?_⟩
      simp only [sepdStep, hgdef, hcd, hgp, hlast, hpw, bind, Except.bind, hb, gt_iff_lt, if_true, pure, Except.pure,
        hcelt, fStep, hgpw', hne1, if_false, Nat.add_sub_cancel]
      have hmem : ∀ a b, ((a, b) ∈ Y ∨ (a = init'.length ∧ b = lastD)) → (init' ++ [lastD])[a]? = some b := by
        rintro a b (hab | ⟨rfl, rfl⟩)
        · exact hYl a b hab lastD
        · simp
      by_cases hg : g (init'.length + 1) = true <;> by_cases hy : pd ≤ lastD ∧ lastD < cd
      all_goals simp [hg, hy, hlast]
      all_goals (intro a b h; apply hmem a b; grind)
  · refine ⟨lastD, ?_⟩
    simp only [sepdStep, hgdef, hcd, bind, Except.bind, hb, gt_iff_lt, if_false, pure, Except.pure, hcelt, fStep]
    by_cases hg : g (init'.length + 1) = true
    · simp [hg]
      intro a b hab
      exact hYl a b hab lastD
    · simp [hg]
      refine ⟨?_, ?_, ?_⟩
      · omega
      · have := getElem?_prefix init' lastD [cd] pwe pwD hpwD
        simpa using this
      · intro a b hab
        exact hYl a b hab lastD


theorem sepdLoop_sim (greedy : List Bool) (g : Nat → Bool) (hgdef : ∀ i, greedy.getD i false = g i) :
    ∀ (suf init' : List Nat) (lastD : Nat) (st : SepdSt) (fs : FSt) (Y : List (Nat × Nat)),
    st.ev = init' ++ lastD :: suf → greedy.length = init'.length + suf.length →
    st.pwe = fs.pwe → st.prevDump = fs.pd → fs.pwe ≤ init'.length →
    (init' ++ [lastD])[fs.pwe]? = some fs.pwD →
    st.out = Y.map Prod.fst → (∀ y ∈ Y, init'[y.1]? = some y.2) →
    ∃ st', sepdLoop greedy suf.length (init'.length + 1) st = .ok st' ∧
      st'.out = (Y ++ fLoop g suf (init'.length + 1) lastD fs).map Prod.fst ∧
      ∀ y ∈ Y ++ fLoop g suf (init'.length + 1) lastD fs, st'.ev[y.1]? = some y.2 := by
  intro suf
  induction suf with
  | nil =>
    intro init' lastD st fs Y hev _ _ _ _ _ hout hY
    refine ⟨st, rfl, by simpa [fLoop] using hout, ?_⟩
    intro y hy
    simp only [fLoop, List.append_nil] at hy
    have := hY y hy
    rw [hev]
    have hlt : y.1 < init'.length := by
      by_cases hlt : y.1 < init'.length
      · exact hlt
      · simp [List.getElem?_eq_none (Nat.le_of_not_lt hlt)] at this
    rw [List.getElem?_append_left hlt]; exact this
  | cons cd rest ih =>
    intro init' lastD st fs Y hev hlen hpwe hpd hle hpwD hout hY
    obtain ⟨x, st1, hstep, hev1, hpwe1, hpd1, hle1, hpwD1, hout1, hY1⟩ :=
      sepdStep_sim greedy g hgdef init' lastD cd rest st fs Y hev
        (by simp only [List.length_cons] at hlen; omega) hpwe hpd hle hpwD hout hY
    have hev1' : st1.ev = (init' ++ [x]) ++ cd :: rest := hev1
    obtain ⟨st', hloop, hout', hY'⟩ := ih (init' ++ [x]) cd st1 (fStep g (init'.length + 1) cd lastD fs).1
      (Y ++ (fStep g (init'.length + 1) cd lastD fs).2) hev1'
      (by simp only [List.length_cons, List.length_append, List.length_nil] at hlen ⊢; omega)
      hpwe1 hpd1 (by simpa using hle1) hpwD1 hout1 hY1
    have hl : (init' ++ [x]).length = init'.length + 1 := by simp
    rw [hl] at hloop hout' hY'
    refine ⟨st', ?_, ?_, ?_⟩
    · simp only [List.length_cons, sepdLoop, hstep, bind, Except.bind]
      exact hloop
    · simpa [fLoop, List.append_assoc] using hout'
    · simpa [fLoop, List.append_assoc] using hY'

/-- **(A)** `list(_single_event_per_dump(events, greedy))` and the mutated `events`, for
    `events[0] = 0` and `len(greedy) = len(events) - 1`: the yielded indices are those of the
    array-free `fLoop`, and the mutated array holds each yielded event's dump. -/
theorem sepd_eq (suf : List Nat) (greedy : List Bool) (hlen : greedy.length = suf.length) :
    ∃ ev', sepd (0 :: suf) greedy =
        .ok ((fLoop (fun i => greedy.getD i false) suf 1 0 ⟨0, 0, 0⟩).map Prod.fst, ev') ∧
      ∀ y ∈ fLoop (fun i => greedy.getD i false) suf 1 0 ⟨0, 0, 0⟩, ev'[y.1]? = some y.2 := by
  have h0 : sepdStep greedy 0 { pwe := 0, prevDump := 0, ev := 0 :: suf, out := [] } =
      .ok { pwe := 0, prevDump := 0, ev := 0 :: suf, out := [] } := by
    simp only [sepdStep, getNat, List.getElem?_cons_zero, bind, Except.bind, gt_iff_lt, Nat.lt_irrefl, if_false,
      pure, Except.pure]
    split <;> rfl
  obtain ⟨st', hloop, hout, hY⟩ := sepdLoop_sim greedy (fun i => greedy.getD i false) (fun _ => rfl) suf [] 0
    { pwe := 0, prevDump := 0, ev := 0 :: suf, out := [] } ⟨0, 0, 0⟩ [] rfl (by simpa using hlen) rfl rfl
    (by simp) (by simp) rfl (by simp)
  refine ⟨st'.ev, ?_, by simpa using hY⟩
  simp only [sepd, List.length_cons, sepdLoop, h0, bind, Except.bind, pure, Except.pure]
  simp only [List.length_nil, Nat.zero_add] at hloop
  rw [hloop]
  simp only [List.nil_append, List.length_nil, Nat.zero_add] at hout
  simp only [hout]

end Categorical
