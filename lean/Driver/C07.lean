import Driver.Common
import KatdalModel.Model.ChunkStore
open Np Drv ChunkStore

namespace DrvC07

def optStr (o : Option Int) : String := match o with | none => "_" | some v => toString v

/-- `a:b:c;a:b:c` (`_` = None), `-` = empty tuple -/
def parseSlcs (s : String) : Option (List Slc) :=
  if s = "-" then some [] else
  (s.splitOn ";").mapM fun t =>
    match t.splitOn ":" with
    | [a, b, c] => do
      let a ← parseOptInt a; let b ← parseOptInt b; let c ← parseOptInt c
      pure (⟨a, b, c⟩ : Slc)
    | _ => none

/-- `2,2,2;4` per-axis chunk lists, `-` = 0-dim -/
def parseChunks (s : String) : Option (List (List Nat)) :=
  if s = "-" then some [] else (s.splitOn ";").mapM parseNatList

def showIntShape (l : List Int) : String := if l.isEmpty then "-" else "x".intercalate (l.map toString)

def showErr (e : CErr) : String := s!"E:{e.name}"

def parseMaxDim (s : String) : Option (List (Nat × Nat)) :=
  if s = "-" then some [] else
  (s.splitOn ",").mapM fun t =>
    match t.splitOn "=" with
    | [k, v] => do let k ← k.toNat?; let v ← v.toNat?; pure (k, v)
    | _ => none

/-- `_prune_chunks(chunks, index)` on all axes: pad the index with full slices, reject
    non-slices / non-unit steps, prune each axis -/
def pruneAll : List (List Nat) → List Slc → Except CErr (List (Pruned × Bool))
  | [], [] => .ok []
  | [], _ :: _ => .error .indexError
  | ch :: chs, [] => do
    let r ← pruneAll chs []
    pure ((pruneAxisIx ch .full, true) :: r)
  | ch :: chs, s :: ss => do
    let ix ← normPIx ch.sum s.start s.stop s.step
    let r ← pruneAll chs ss
    pure ((pruneAxisIx ch ix, ix == .full) :: r)

def showPruned (p : Pruned × Bool) : String :=
  let ix := if p.2 then "_:_" else s!"{p.1.start}:{p.1.stop}"
  s!"{showNatList p.1.chunks}|{ix}|{p.1.offset}"

def showBounds (p : Pruned × Bool) : String :=
  -- the zero-size placeholder chunk is not a stored chunk
  let b := chunkBounds p.1.offset p.1.chunks
  ",".intercalate (b.map fun (lo, hi) => s!"{lo}-{hi}")

/-- requests:
    name <array> <starts>                          -> chunk name
    meta <array> <slices> <chunkshape|none> <chunkobj> <dtypeobj> -> `ok <name> <shape>` | E:..
    prune <chunks> <index>                         -> per axis `chunks|start:stop|offset`
    bounds <chunks> <index>                        -> per axis kept chunk bounds `lo-hi,..`
    gen <shape> <itemsize> <maxbytes> <dims> <pow2> <maxdim> -> chunks
    s3path <chunkname> | npypath <root> <chunkname> | tmppath <root> <chunkname>
    clip <shape> <slices>                          -> numpy-clipped view shape -/
def step (line : String) : String :=
  match line.splitOn " " with
  | ["name", arr, starts] =>
    match parseIntList starts with
    | some st => String.ofList (chunkNameInt arr.toList st)
    | none => "bad-op"
  | ["meta", arr, sl, cs, co, dobj] =>
    match parseSlcs sl, (if cs = "none" then some none else (parseShape cs).map some) with
    | some sl, some cs =>
      match chunkMetadata arr.toList sl cs (co = "1") (dobj = "1") with
      | .ok (nm, shp) => s!"ok {String.ofList nm} {showIntShape shp}"
      | .error e => showErr e
    | _, _ => "bad-op"
  | ["prune", ch, ix] =>
    match parseChunks ch, parseSlcs ix with
    | some ch, some ix =>
      match pruneAll ch ix with
      | .ok r => if r.isEmpty then "-" else ";".intercalate (r.map showPruned)
      | .error e => showErr e
    | _, _ => "bad-op"
  | ["bounds", ch, ix] =>
    match parseChunks ch, parseSlcs ix with
    | some ch, some ix =>
      match pruneAll ch ix with
      | .ok r => if r.isEmpty then "-" else ";".intercalate (r.map showBounds)
      | .error e => showErr e
    | _, _ => "bad-op"
  | ["gen", sh, isz, mb, dims, p2, md] =>
    match parseShape sh, isz.toNat?, mb.toNat?, (if dims = "-" then some [] else parseNatList dims),
        parseMaxDim md with
    | some sh, some isz, some mb, some dims, some md =>
      let r := generateChunks sh isz mb dims (p2 = "1") md
      if r.isEmpty then "-" else ";".intercalate (r.map showNatList)
    | _, _, _, _, _ => "bad-op"
  | ["s3path", nm] => String.ofList (s3Loc nm.toList)
  | ["s3marker", arr] => String.ofList (s3MarkerLoc arr.toList)
  | ["npypath", root, nm] => String.ofList (npyLoc root.toList nm.toList)
  | ["tmppath", root, nm] => String.ofList (npyTmpLoc root.toList nm.toList)
  | ["npymarker", root, arr] => String.ofList (npyMarkerLoc root.toList arr.toList)
  | ["clip", sh, sl] =>
    match parseShape sh, parseSlcs sl with
    | some sh, some sl => showIntShape (clippedShape sh sl)
    | _, _ => "bad-op"
  | _ => "bad-op"

end DrvC07

def main : IO Unit := Drv.loop DrvC07.step
