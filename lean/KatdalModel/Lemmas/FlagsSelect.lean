/-
  C16 lemmas, part 2: the select() state machine.  Projection of the state onto its T/F/B part
  (`Core`), the invariant "every stored criterion already holds in its mask" that `select` establishes
  on every call, and: a call with only `flags=` / `weights=` is the identity on `Core`.
-/
import KatdalModel.Lemmas.Flags
open Np
namespace Flags

structure Core where
  t : List Bool
  f : List Bool
  b : List Bool
  sel : List Crit
  deriving DecidableEq

def St.core (s : St) : Core := ⟨s.tKeep, s.fKeep, s.bKeep, s.selection⟩

def Core.maskOf (c : Core) : Dim → List Bool
  | .T => c.t | .F => c.f | .B => c.b

def applyCritC (c : Core) (k : Crit) : Core :=
  match k.1.dim with
  | .T => { c with t := andMask c.t k.2 }
  | .F => { c with f := andMask c.f k.2 }
  | .B => { c with b := andMask c.b k.2 }

def coreStep (c : Core) (ds : List Dim) (kw : List Crit) : Core :=
  let sel2 := dictUpdate (c.sel.filter fun k => !ds.contains k.1.dim) kw
  sel2.foldl applyCritC
    ⟨resetMask ds .T c.t, resetMask ds .F c.f, resetMask ds .B c.b, sel2⟩

theorem applyCrit_core (s : St) (k : Crit) : (applyCrit s k).core = applyCritC s.core k := by
  unfold applyCrit applyCritC St.core
  cases k.1.dim <;> rfl

theorem foldl_applyCrit_core (l : List Crit) (s : St) :
    (l.foldl applyCrit s).core = l.foldl applyCritC s.core := by
  induction l generalizing s with
  | nil => rfl
  | cons k t ih => simp only [List.foldl_cons, ih, applyCrit_core]

theorem setWeights_core (s : St) : (setWeights s).core = s.core := by
  unfold setWeights; split <;> rfl

theorem setFlags_core (f : Fmt) (s : St) : (setFlags f s).core = s.core := by
  unfold setFlags; split <;> rfl

theorem setKeep_core (f : Fmt) (s : St) : (setKeep f s).core = s.core := rfl

/-- the T/F/B part of `select()` is a function of the T/F/B part of the state, the reset dimensions and
    the T/F/B keywords only -/
theorem core_step (f : Fmt) (s : St) (c : Call) :
    (step f s c).core = coreStep s.core c.resetDims c.crits := by
  unfold step
  simp only [setKeep_core, setFlags_core, setWeights_core, foldl_applyCrit_core]
  rfl

/-! ### masks -/

theorem andMask_idem (a m : List Bool) : andMask (andMask a m) m = andMask a m := by
  unfold andMask
  induction a generalizing m with
  | nil => simp
  | cons x t ih =>
    cases m with
    | nil => simp
    | cons y u => simp only [List.zipWith_cons_cons, ih]; cases x <;> cases y <;> rfl

theorem andMask_mono {a m : List Bool} (h : andMask a m = a) (m' : List Bool) :
    andMask (andMask a m') m = andMask a m' := by
  unfold andMask at *
  induction a generalizing m m' with
  | nil => simp
  | cons x t ih =>
    cases m with
    | nil => simp at h
    | cons y u =>
      cases m' with
      | nil => simp
      | cons z v =>
        simp only [List.zipWith_cons_cons, List.cons.injEq] at h ⊢
        refine ⟨?_, ih h.2 v⟩
        have := h.1
        cases x <;> cases y <;> cases z <;> simp_all

theorem maskOf_applyCritC (c : Core) (k : Crit) (d : Dim) :
    (applyCritC c k).maskOf d = if k.1.dim = d then andMask (c.maskOf d) k.2 else c.maskOf d := by
  unfold applyCritC
  cases hk : k.1.dim <;> cases d <;> simp [Core.maskOf]

theorem sel_applyCritC (c : Core) (k : Crit) : (applyCritC c k).sel = c.sel := by
  unfold applyCritC; cases k.1.dim <;> rfl

theorem sel_foldl_applyCritC (l : List Crit) (c : Core) : (l.foldl applyCritC c).sel = c.sel := by
  induction l generalizing c with
  | nil => rfl
  | cons k t ih => simp only [List.foldl_cons, ih, sel_applyCritC]

/-- a criterion that holds keeps holding while further criteria are and-ed in -/
theorem holds_foldl (l : List Crit) (c : Core) (d : Dim) (m : List Bool)
    (h : andMask (c.maskOf d) m = c.maskOf d) :
    andMask ((l.foldl applyCritC c).maskOf d) m = (l.foldl applyCritC c).maskOf d := by
  induction l generalizing c with
  | nil => exact h
  | cons k t ih =>
    simp only [List.foldl_cons]
    apply ih
    rw [maskOf_applyCritC]
    split
    · exact andMask_mono h _
    · exact h

/-- after the re-application loop every criterion of the list holds -/
theorem all_hold_foldl (l : List Crit) (c : Core) :
    ∀ k ∈ l, andMask ((l.foldl applyCritC c).maskOf k.1.dim) k.2 = (l.foldl applyCritC c).maskOf k.1.dim := by
  induction l generalizing c with
  | nil => intro k hk; cases hk
  | cons k0 t ih =>
    intro k hk
    simp only [List.foldl_cons]
    rcases List.mem_cons.mp hk with rfl | hk
    · apply holds_foldl
      rw [maskOf_applyCritC]
      simp [andMask_idem]
    · exact ih _ k hk

/-- invariant: each stored criterion is already contained in the mask of its dimension -/
def Inv (c : Core) : Prop := ∀ k ∈ c.sel, andMask (c.maskOf k.1.dim) k.2 = c.maskOf k.1.dim

theorem inv_coreStep (c : Core) (ds : List Dim) (kw : List Crit) : Inv (coreStep c ds kw) := by
  unfold coreStep Inv
  simp only [sel_foldl_applyCritC]
  exact all_hold_foldl _ _

theorem inv_step (f : Fmt) (s : St) (c : Call) : Inv (step f s c).core := by
  rw [core_step]; exact inv_coreStep _ _ _

theorem inv_init (f : Fmt) (nT nF nB : Nat) : Inv (init f nT nF nB).core := by
  intro k hk; cases hk

theorem applyCritC_id (c : Core) (k : Crit) (h : andMask (c.maskOf k.1.dim) k.2 = c.maskOf k.1.dim) :
    applyCritC c k = c := by
  unfold applyCritC
  cases hk : k.1.dim <;> simp only [hk, Core.maskOf] at h ⊢ <;> rw [h]

theorem foldl_id (l : List Crit) (c : Core)
    (h : ∀ k ∈ l, andMask (c.maskOf k.1.dim) k.2 = c.maskOf k.1.dim) : l.foldl applyCritC c = c := by
  induction l with
  | nil => rfl
  | cons k t ih =>
    simp only [List.foldl_cons]
    rw [applyCritC_id c k (h k (by simp))]
    exact ih (fun k hk => h k (by simp [hk]))

theorem resetDims_flagsOnly {c : Call} (h : c.flagsOnly = true) : c.resetDims = [] ∧ c.crits = [] := by
  obtain ⟨r, cr, fl, w⟩ := c
  simp only [Call.flagsOnly, Bool.and_eq_true, Option.isNone_iff_eq_none, List.isEmpty_iff] at h
  obtain ⟨⟨rfl, rfl⟩, h3⟩ := h
  refine ⟨?_, rfl⟩
  cases fl <;> cases w <;> simp_all [Call.resetDims, Call.noArgs]

theorem coreStep_nil (c : Core) (hi : Inv c) : coreStep c [] [] = c := by
  unfold coreStep
  have hs : (c.sel.filter fun k => !([] : List Dim).contains k.1.dim) = c.sel := by simp
  simp only [dictUpdate, List.foldl_nil, resetMask, List.contains_nil, Bool.false_eq_true, if_false]
  simp only [List.contains_nil] at hs
  rw [hs]
  exact foldl_id _ _ hi

/-- a `select(flags=..., weights=...)` call leaves the T/F/B masks and the stored T/F/B criteria alone -/
theorem core_step_flagsOnly (f : Fmt) (s : St) (c : Call) (hc : c.flagsOnly = true) (hi : Inv s.core) :
    (step f s c).core = s.core := by
  rw [core_step]
  obtain ⟨h1, h2⟩ := resetDims_flagsOnly hc
  rw [h1, h2]
  exact coreStep_nil _ hi

theorem resetDims_clearFW {c : Call} (h : c.flagsOnly = false) : c.clearFW.resetDims = c.resetDims := by
  obtain ⟨r, cr, fl, w⟩ := c
  cases r <;> cases cr <;> cases fl <;> cases w <;>
    simp_all [Call.flagsOnly, Call.clearFW, Call.resetDims, Call.noArgs]

theorem inv_run (f : Fmt) (s : St) (h : List Call) (hi : Inv s.core) : Inv (run f s h).core := by
  induction h generalizing s with
  | nil => exact hi
  | cons c t ih => exact ih _ (inv_step f s c)

/-- main induction: deleting every flag / weight selection from a history does not change the T/F/B part -/
theorem core_run_erase (f : Fmt) (h : List Call) (s s' : St) (hc : s.core = s'.core) (hi : Inv s.core) :
    (run f s h).core = (run f s' (eraseFW h)).core := by
  induction h generalizing s s' with
  | nil => exact hc
  | cons c t ih =>
    unfold eraseFW
    cases hfo : c.flagsOnly with
    | true =>
      simp only [if_true]
      show (run f (step f s c) t).core = _
      apply ih
      · rw [core_step_flagsOnly f s c hfo hi, hc]
      · exact inv_step f s c
    | false =>
      simp only [Bool.false_eq_true, if_false]
      show (run f (step f s c) t).core = (run f (step f s' c.clearFW) (eraseFW t)).core
      apply ih
      · rw [core_step, core_step, resetDims_clearFW hfo, hc]; rfl
      · exact inv_step f s c

end Flags
