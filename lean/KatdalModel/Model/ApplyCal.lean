/-
  ApplyCal: executable model of katdal/applycal.py (+ `_normalise_cal_products` of visdatav4.py),
  the code properties C13 and C14 are anchored in.  Mathlib-free: it is compiled into the
  drivers `kd_c13` / `kd_c14`.

  Scalars.  Everything is generic over a complex scalar type `S` and a real type `F`:
    * in the theorems `S = Scalar K` (`nan | val x`, `K` an abstract field with an involutive
      multiplicative conjugation) and `F` an ordered field: exact arithmetic, exact NaN logic;
    * in the drivers `S` = pairs of IEEE doubles and `F = Float` (Driver/C13.lean, Driver/C14.lean).
  The operations that are not field operations (NaN tests, |z|, arg z, polar form, exp(iθ), √, π,
  floating `mod`) come in the records `CAlg` / `ROps`; the theorems hold for *every* such record,
  i.e. they only use the structure of the code, never a property of cos/sin/atan2.

  Mirror functions follow the Python statement by statement and return `Except Err` where numpy /
  Python would raise; `spec…` functions are the pointwise reading of the documentation.
-/
import KatdalModel.Np.Basic
import KatdalModel.Generated.Tables
open Np

namespace ApplyCal

/-! ## 1. Scalars -/

/-- A complex64 value as the NaN logic sees it: not-a-number, or a number. -/
inductive Scalar (K : Type) where
  | nan
  | val (x : K)
  deriving DecidableEq, Repr, Inhabited

/-- The complex operations `applycal.py` uses. -/
structure CAlg (S F : Type) where
  one : S
  /-- `INVALID_GAIN` -/
  nan : S
  mul : S → S → S
  conj : S → S
  /-- `np.reciprocal` -/
  inv : S → S
  /-- `np.isnan` -/
  isNan : S → Bool
  /-- `np.isfinite` -/
  isFinite : S → Bool
  /-- `re*re + im*im`; `none` when that is NaN -/
  normSq : S → Option F
  abs : S → F
  angle : S → F
  /-- `mag * (cos φ + i sin φ)` -/
  polar : F → F → S
  /-- complex divided by real -/
  divReal : S → F → S
  /-- `exp(iθ)` -/
  cis : F → S

/-- The real operations that are not field operations. -/
structure ROps (F : Type) where
  pi : F
  /-- `np.mod` (sign of the divisor) -/
  fmod : F → F → F
  sqrt : F → F
  /-- dump index as a float -/
  ofNat : Nat → F

namespace Scalar
variable {K : Type}

def mul [Mul K] : Scalar K → Scalar K → Scalar K
  | val x, val y => val (x * y)
  | _, _ => nan

def map (f : K → K) : Scalar K → Scalar K
  | val x => val (f x)
  | nan => nan

def isNan : Scalar K → Bool
  | nan => true
  | val _ => false

/-- reciprocal: `1/0` is NaN for complex64 (`np.reciprocal(0j) = nan+nanj`) -/
def inv [Inv K] [Zero K] [DecidableEq K] : Scalar K → Scalar K
  | val x => if x = 0 then nan else val x⁻¹
  | nan => nan

end Scalar

/-- Opaque per-number functions needed to turn `Scalar K` into a `CAlg`. -/
structure KOps (K F : Type) where
  star : K → K
  normSq : K → F
  abs : K → F
  angle : K → F
  polar : F → F → K
  divReal : K → F → K
  cis : F → K

/-- The exact algebra used by the theorems. -/
def Scalar.alg {K F : Type} [Mul K] [One K] [Inv K] [Zero K] [DecidableEq K] [Zero F] (o : KOps K F) :
    CAlg (Scalar K) F where
  one := .val 1
  nan := .nan
  mul := Scalar.mul
  conj := Scalar.map o.star
  inv := Scalar.inv
  isNan := Scalar.isNan
  isFinite := fun s => !s.isNan
  normSq := fun s => match s with | .val x => some (o.normSq x) | .nan => none
  abs := fun s => match s with | .val x => o.abs x | .nan => 0
  angle := fun s => match s with | .val x => o.angle x | .nan => 0
  polar := fun m p => .val (o.polar m p)
  divReal := fun s r => match s with | .val x => .val (o.divReal x r) | .nan => .nan
  cis := fun t => .val (o.cis t)

/-! ## 2. C13: `calc_correction`, `calc_correction_per_corrprod`, the kernels -/

section C13
variable {S F : Type}

/-- insertion into a strictly increasing list of labels (no duplicates) -/
def insertSorted (a : String) : List String → List String
  | [] => [a]
  | b :: t => if a < b then a :: b :: t else if a = b then b :: t else b :: insertSorted a t

/-- `sorted(set(np.ravel(corrprods)))` -/
def sortedInputs (cps : List (String × String)) : List String :=
  cps.foldr (fun cp acc => insertSorted cp.1 (insertSorted cp.2 acc)) []

/-- The three channel maps `calc_correction` can install for a product. -/
inductive ChanMap where
  /-- `lambda g, channels: g` -/
  | broadcast
  /-- `lambda g, channels: g[channels]` -/
  | direct
  /-- `lambda g, channels: g[expand[channels]]` -/
  | expand (e : List Nat)
  deriving DecidableEq, Repr, Inhabited

/-- One entry of `CorrectionParams.corrections` / `.channel_maps`. -/
structure Product (S : Type) where
  name : String
  /-- `[input][dump]` ↦ correction vector -/
  corr : List (List (List S))
  cmap : ChanMap

/-- `CorrectionParams` -/
structure Params (S : Type) where
  inputs : List String
  idx1 : List Nat
  idx2 : List Nat
  prods : List (Product S)

section freq
variable [Sub F] [Neg F] [Zero F] [LT F] [DecidableLT F]

/-- `np.abs` on a real -/
def absF (x : F) : F := if x < 0 then -x else x

def argminGo : List F → Nat → F → Nat → Nat
  | [], _, _, bi => bi
  | x :: t, i, b, bi => if x < b then argminGo t (i + 1) x i else argminGo t (i + 1) b bi

/-- `np.argmin`: index of the first minimum (0 for an empty list, where numpy raises) -/
def argminFirst : List F → Nat
  | [] => 0
  | x :: t => argminGo t 1 x 0

/-- `np.allclose(a, b, rtol=0, atol=atol)` for equal lengths -/
def allclose (atol : F) : List F → List F → Bool
  | [], [] => true
  | a :: as, b :: bs => !(decide (atol < absF (a - b))) && allclose atol as bs
  | _, _ => false

/-- `np.abs(data_freqs[:, None] - cal_freqs[None, :]).argmin(axis=-1)` -/
def expandMap (dataFreqs calFreqs : List F) : List Nat :=
  dataFreqs.map fun f => argminFirst (calFreqs.map fun g => absF (f - g))

/-- The `if / elif / else` of `calc_correction` that picks a product's channel map from the number of
    channels `n` of its corrections. -/
def chooseMap (atol : F) (n : Nat) (dataFreqs calFreqs : List F) : ChanMap :=
  if n = 1 then .broadcast
  else if n = dataFreqs.length ∧
      (calFreqs.length ≠ dataFreqs.length ∨ allclose atol calFreqs dataFreqs = true) then .direct
  else .expand (expandMap dataFreqs calFreqs)

end freq

/-- `channel_map(g, channels)` for `channels = slice(f0, f1)` (Python slicing clips silently) -/
def applyMap (cm : ChanMap) (g : List S) (f0 f1 : Nat) : Except Err (List S) :=
  match cm with
  | .broadcast => .ok g
  | .direct => .ok ((g.drop f0).take (f1 - f0))
  | .expand e => ((e.drop f0).take (f1 - f0)).mapM (getNat g)

/-- numpy in-place `acc *= v` with broadcasting of a length-1 (or 0-d) `v` -/
def mulBroadcast (A : CAlg S F) (acc v : List S) : Except Err (List S) :=
  if v.length = acc.length then .ok (List.zipWith A.mul acc v)
  else match v with
    | [c] => .ok (acc.map (A.mul · c))
    | _ => .error .value

/-- one product's pass over all inputs: `g_per_input[i] *= channel_map(sensor[dump], channels)` -/
def productStep (A : CAlg S F) (t f0 f1 : Nat) (acc : List (List S)) (p : Product S) :
    Except Err (List (List S)) :=
  (List.range acc.length).mapM fun i => do
    let row ← getNat acc i
    let sensor ← getNat p.corr i
    let g ← getNat sensor t
    let v ← applyMap p.cmap g f0 f1
    mulBroadcast A row v

/-- first half of `calc_correction_per_corrprod`: `g_per_input[input][channel]` -/
def gPerInput (A : CAlg S F) (P : Params S) (t f0 f1 : Nat) : Except Err (List (List S)) :=
  P.prods.foldlM (productStep A t f0 f1)
    (List.replicate P.inputs.length (List.replicate (f1 - f0) A.one))

/-- `_correction_inputs_to_corrprods` (after the transpose): `[channel][corrprod]` -/
def inputsToCorrprods (A : CAlg S F) (P : Params S) (g : List (List S)) (n : Nat) :
    Except Err (List (List S)) :=
  (List.range n).mapM fun j => (P.idx1.zip P.idx2).mapM fun ab => do
    let ga ← getNat g ab.1
    let gb ← getNat g ab.2
    let x ← getNat ga j
    let y ← getNat gb j
    pure (A.mul x (A.conj y))

/-- `calc_correction_per_corrprod(dump, slice(f0, f1), params)` -/
def perCorrprod (A : CAlg S F) (P : Params S) (t f0 f1 : Nat) : Except Err (List (List S)) := do
  let g ← gPerInput A P t f0 f1
  inputsToCorrprods A P g (f1 - f0)

/-- `_correction_block` for the block at absolute location `[t0,t1) × [f0,f1)` -/
def block (A : CAlg S F) (P : Params S) (t0 t1 f0 f1 : Nat) : Except Err (List (List (List S))) :=
  (List.range' t0 (t1 - t0)).mapM fun t => perCorrprod A P t f0 f1

/-- blocks of one chunk row, concatenated along the channel axis -/
def assembleRow (A : CAlg S F) (P : Params S) (t0 t1 : Nat) : Nat → List Nat →
    Except Err (List (List (List S)))
  | _, [] => .ok (List.replicate (t1 - t0) [])
  | f0, c :: cs => do
    let b ← block A P t0 t1 f0 (f0 + c)
    let rest ← assembleRow A P t0 t1 (f0 + c) cs
    pure (List.zipWith (· ++ ·) b rest)

/-- the dask array of `calc_correction`: all blocks of a `(time, freq)` chunking, concatenated -/
def assemble (A : CAlg S F) (P : Params S) (cf : List Nat) : Nat → List Nat →
    Except Err (List (List (List S)))
  | _, [] => .ok []
  | t0, c :: cs => do
    let r ← assembleRow A P t0 (t0 + c) 0 cf
    let rest ← assemble A P cf (t0 + c) cs
    pure (r ++ rest)

/-! ### spec: the pointwise reading -/

/-- value of a channel map at absolute data channel `f` -/
def mapAt (cm : ChanMap) (g : List S) (f : Nat) : Option S :=
  match cm with
  | .broadcast => g[0]?
  | .direct => g[f]?
  | .expand e => match e[f]? with
    | some k => g[k]?
    | none => none

/-- correction of product `p` for input number `i` at dump `t`, data channel `f` -/
def corrAt (A : CAlg S F) (p : Product S) (i t f : Nat) : S :=
  match p.corr[i]? with
  | some sensor => match sensor[t]? with
    | some g => (mapAt p.cmap g f).getD A.nan
    | none => A.nan
  | none => A.nan

/-- `∏_p c_p(i₁,t,f) · conj c_p(i₂,t,f)` in the order of `prods` -/
def specFactor (A : CAlg S F) (prods : List (Product S)) (i1 i2 t f : Nat) : S :=
  prods.foldl (fun acc p => A.mul acc (A.mul (corrAt A p i1 t f) (A.conj (corrAt A p i2 t f)))) A.one

/-- the row over correlation products at `(t, f)` -/
def specRow (A : CAlg S F) (P : Params S) (t f : Nat) : List S :=
  (P.idx1.zip P.idx2).map fun ab => specFactor A P.prods ab.1 ab.2 t f

/-- the whole correction array `[t][f][b]` as a pointwise function -/
def specArray (A : CAlg S F) (P : Params S) (t0 t1 f0 f1 : Nat) : List (List (List S)) :=
  (List.range' t0 (t1 - t0)).map fun t => (List.range' f0 (f1 - f0)).map fun f => specRow A P t f

/-! ### `calc_correction`: sensor lookup, dict semantics, channel-map choice -/

/-- `cal_product.rsplit('.', 1)` → `(stream, type)`; `none` when there is no dot (`ValueError`) -/
def parseCalProduct (s : String) : Option (String × String) :=
  let rev := s.toList.reverse
  let suf := rev.takeWhile (· ≠ '.')
  if suf.length = rev.length then none
  else some (String.ofList (rev.drop (suf.length + 1)).reverse, String.ofList suf.reverse)

/-- `dict[key] = value`: keeps the position of an existing key -/
def dictSet (d : List (Product S)) (p : Product S) : List (Product S) :=
  if d.any (·.name == p.name) then d.map (fun q => if q.name == p.name then p else q) else d ++ [p]

/-- `len(np.atleast_1d(corr_per_input[0]))` -/
def firstLen (c : List (List S)) : Except Err Nat :=
  match c with
  | [] => .error .index        -- data[0] on an empty list
  | g :: _ => .ok g.length

/-- number of channels of a product's corrections: `max(len(atleast_1d(c[0])) for c in …)` -/
def corrNChans (corr : List (List (List S))) : Except Err Nat :=
  match corr with
  | [] => .error .value            -- max() of an empty sequence
  | _ => do
    let ns ← corr.mapM firstLen
    pure (ns.foldl max 0)

/-- fetch the correction sensors of one product for all inputs: `none` = a sensor is missing -/
def fetchSensors (sensors : String → String → Option (List (List S))) (name : String) :
    List String → Option (List (List (List S)))
  | [] => some []
  | inp :: t => match sensors name inp with
    | none => none
    | some s => (fetchSensors sensors name t).map (s :: ·)

variable [Sub F] [Neg F] [Zero F] [LT F] [DecidableLT F]

/-- the product loop of `calc_correction`.  Besides the dict of products it threads the Python
    variable `expand`: the nearest-channel table most recently computed (`none` = never assigned). -/
def productLoop (sensors : String → String → Option (List (List S))) (inputs : List String)
    (dataFreqs : List F) (allCalFreqs : String → Option (List F)) (atol : F) (skipMissing : Bool) :
    List String → List (Product S) → Option (List Nat) → Except Err (List (Product S) × Option (List Nat))
  | [], acc, last => .ok (acc, last)
  | name :: rest, acc, last =>
    match parseCalProduct name with
    | none => .error .value
    | some (stream, _) =>
      match fetchSensors sensors name inputs with
      | none => if skipMissing then
                  productLoop sensors inputs dataFreqs allCalFreqs atol skipMissing rest acc last
                else .error .key
      | some corr =>
        match allCalFreqs stream with
        | none => .error .key
        | some calFreqs => do
          let n ← corrNChans corr
          let cm := chooseMap atol n dataFreqs calFreqs
          let p : Product S := { name := name, corr := corr, cmap := cm }
          let last' := match cm with | .expand e => some e | _ => last
          productLoop sensors inputs dataFreqs allCalFreqs atol skipMissing rest (dictSet acc p) last'

/-- Python closures capture variables, not values: each `lambda g, channels: g[expand[channels]]`
    installed by the loop reads `expand` when it is *called*, i.e. the table of the last product that
    needed one.  (This is where the code departs from "each product's own channelisation".) -/
def lateBind (last : Option (List Nat)) (ps : List (Product S)) : List (Product S) :=
  match last with
  | none => ps
  | some e => ps.map fun p => match p.cmap with
    | .expand _ => { p with cmap := .expand e }
    | _ => p

def mkParams (corrprods : List (String × String)) (inputs : List String) (prods : List (Product S)) :
    Params S :=
  { inputs := inputs
    idx1 := corrprods.map fun cp => inputs.idxOf cp.1
    idx2 := corrprods.map fun cp => inputs.idxOf cp.2
    prods := prods }

/-- `calc_correction` as *intended*: every product keeps the channel map chosen for it -/
def calcCorrectionIntended (sensors : String → String → Option (List (List S)))
    (corrprods : List (String × String)) (calProducts : List String) (dataFreqs : List F)
    (allCalFreqs : String → Option (List F)) (atol : F) (skipMissing : Bool) : Except Err (Params S) := do
  let inputs := sortedInputs corrprods
  let r ← productLoop sensors inputs dataFreqs allCalFreqs atol skipMissing calProducts [] none
  pure (mkParams corrprods inputs r.1)

/-- `calc_correction` as *coded* (up to the dask array): `final_cal_products` are the names in
    `prods`; the nearest-channel maps are late-bound -/
def calcCorrection (sensors : String → String → Option (List (List S))) (corrprods : List (String × String))
    (calProducts : List String) (dataFreqs : List F) (allCalFreqs : String → Option (List F)) (atol : F)
    (skipMissing : Bool) : Except Err (Params S) := do
  let inputs := sortedInputs corrprods
  let r ← productLoop sensors inputs dataFreqs allCalFreqs atol skipMissing calProducts [] none
  pure (mkParams corrprods inputs (lateBind r.2 r.1))

/-- spec by *label*: the correction a product holds for the input called `inp` -/
def corrByLabel (A : CAlg S F) (sensors : String → String → Option (List (List S))) (name : String)
    (cm : ChanMap) (inp : String) (t f : Nat) : S :=
  match sensors name inp with
  | some sensor => match sensor[t]? with
    | some g => (mapAt cm g f).getD A.nan
    | none => A.nan
  | none => A.nan

/-- `∏_p c_p(label₁) · conj c_p(label₂)` over `(name, channel map)` pairs -/
def specByLabel (A : CAlg S F) (sensors : String → String → Option (List (List S)))
    (prods : List (String × ChanMap)) (l1 l2 : String) (t f : Nat) : S :=
  prods.foldl (fun acc p => A.mul acc (A.mul (corrByLabel A sensors p.1 p.2 l1 t f)
    (A.conj (corrByLabel A sensors p.1 p.2 l2 t f)))) A.one

end C13

/-! ### the three kernels -/

section kernels
variable {S F : Type} [Div F] [Zero F] [LT F] [DecidableLT F]

/-- body of `apply_vis_correction` -/
def applyVis1 (A : CAlg S F) (d c : S) : S := if !A.isNan c then A.mul d c else d

/-- body of `apply_weights_correction` (`c > 0` is false for NaN) -/
def applyWeight1 (A : CAlg S F) (w : F) (cc : S) : F :=
  match A.normSq cc with
  | some c => if 0 < c then w / c else 0
  | none => 0

/-- body of `apply_flags_correction` -/
def applyFlag1 (A : CAlg S F) (fl : Nat) (c : S) : Nat :=
  if A.isNan c then fl ||| Tables.flagPostproc else fl

/-- the three nested loops of each kernel -/
def zip3 {α β γ : Type} (k : α → β → γ) (d : List (List (List α))) (c : List (List (List β))) :
    List (List (List γ)) :=
  List.zipWith (List.zipWith (List.zipWith k)) d c

def applyVis (A : CAlg S F) := zip3 (applyVis1 A)
def applyWeights (A : CAlg S F) := zip3 (applyWeight1 A)
def applyFlags (A : CAlg S F) := zip3 (applyFlag1 A)

end kernels

/-! ## 3. C14: product names -/

section names

/-- what `applycal=` may be: a string, or a sequence of strings -/
inductive Req where
  | str (s : String)
  | seq (l : List String)
  deriving DecidableEq, Repr, Inhabited

/-- `'.' in product` -/
def hasDot (s : String) : Bool := s.toList.contains '.'

/-- `'.'.join((a, b))` -/
def joinDot (a b : String) : String := a ++ "." ++ b

/-- `str.isspace` for the characters below U+0100 -/
def isPySpace (c : Char) : Bool :=
  c = ' ' || (9 ≤ c.toNat && c.toNat ≤ 13) || (28 ≤ c.toNat && c.toNat ≤ 31) || c.toNat = 0x85 || c.toNat = 0xa0

/-- `str.strip()` -/
def pyStrip (s : String) : String :=
  String.ofList ((s.toList.dropWhile isPySpace).reverse.dropWhile isPySpace).reverse

/-- `str.split(',')` on the character list -/
def splitComma : List Char → List (List Char)
  | [] => [[]]
  | c :: t => match splitComma t with
    | [] => [[]]
    | h :: rest => if c = ',' then [] :: h :: rest else (c :: h) :: rest

/-- `_selection_to_list(products, all=cal_streams, default=DEFAULT_CAL_PRODUCTS)` -/
def selectionToList (r : Req) (all dflt : List String) : List String :=
  match r with
  | .str s => if s = "" then [] else if s = "all" then all else if s = "default" then dflt
              else (splitComma s.toList).map fun cs => pyStrip (String.ofList cs)
  | .seq l => l

/-- the `for product in requested_cal_products` loop of `_normalise_cal_products` -/
def normaliseLoop (streams : List String) : List String → List String → Except Err (List String)
  | [], acc => .ok acc
  | p :: rest, acc =>
    if hasDot p then normaliseLoop streams rest (acc ++ [p])
    else if streams.contains p then
      normaliseLoop streams rest (acc ++ Tables.calProductTypes.map (joinDot p))
    else if Tables.calProductTypes.contains p then
      normaliseLoop streams rest (acc ++ streams.map (joinDot · p))
    else .error .value

/-- `_normalise_cal_products(products, cal_streams)` → `(normalised, skip_missing_products)` -/
def normaliseCalProducts (r : Req) (streams : List String) : Except Err (List String × Bool) := do
  let requested := selectionToList r streams Tables.defaultCalProducts
  let skip := (match r with | .str s => s = "all" || s = "default" | .seq _ => false)
    || requested.any (fun p => !hasDot p)
  let out ← normaliseLoop streams requested []
  pure (out, skip)

/-- spec: what one requested name stands for -/
def expandName (streams : List String) (p : String) : Except Err (List String) :=
  if hasDot p then .ok [p]
  else if streams.contains p then .ok (Tables.calProductTypes.map (joinDot p))
  else if Tables.calProductTypes.contains p then .ok (streams.map (joinDot · p))
  else .error .value

end names

/-! ## 4. C14: multi-part products -/

section stitch
variable {V : Type}

/-- one part of a split cal product: `(timestamp, value)` in increasing time order -/
abbrev Part (V : Type) := List (Int × V)

/-- `min` with `none` = `np.inf` -/
def minOpt : Option Int → Option Int → Option Int
  | none, b => b
  | a, none => a
  | some a, some b => some (if b < a then b else a)

def headTime (p : Part V) : Option Int := p.head?.map (·.1)

/-- `min(part_timestamps)` -/
def nextTime (rem : List (Part V)) : Option Int := rem.foldr (fun p acc => minOpt (headTime p) acc) none

/-- the piece a part contributes at time `t` (`None` when its next timestamp is not `t`) -/
def pieceAt (t : Int) : Part V → Option V
  | (t', v) :: _ => if t' = t then some v else none
  | [] => none

/-- advance the parts that contributed -/
def advance (t : Int) : Part V → Part V
  | (t', v) :: tl => if t' = t then tl else (t', v) :: tl
  | [] => []

/-- the `while True` loop of `indirect_cal_product`; `none` = fuel exhausted -/
def stitchLoop : Nat → List (Part V) → Option (List (Int × List (Option V)))
  | 0, rem => match nextTime rem with
    | none => some []
    | some _ => none
  | fuel + 1, rem => match nextTime rem with
    | none => some []
    | some t => (stitchLoop fuel (rem.map (advance t))).map ((t, rem.map (pieceAt t)) :: ·)

/-- fuel that always suffices: the total number of stored values -/
def stitchFuel (parts : List (Part V)) : Nat := (parts.map List.length).sum

/-- spec of a part's value at `t` -/
def lookupTime (t : Int) (p : Part V) : Option V := (p.find? (·.1 = t)).map (·.2)

variable {S F : Type}

/-- `np.full_like(piece, INVALID_GAIN)` where `piece` is the last piece that was present, then
    `np.concatenate(pieces)` (values are flattened channel-major arrays) -/
def fillPieces (A : CAlg S F) (pieces : List (Option (List S))) : List S :=
  let lastLen := (pieces.filterMap id).getLast?.map List.length |>.getD 0
  (pieces.map fun p => p.getD (List.replicate lastLen A.nan)).flatten

/-- `indirect_cal_product` for a multi-part product: `KeyError` when no part has any value -/
def stitch (A : CAlg S F) (parts : List (Part (List S))) : Except Err (List (Int × List S)) :=
  match stitchLoop (stitchFuel parts) parts with
  | none => .error .other
  | some [] => .error .key
  | some evs => .ok (evs.map fun e => (e.1, fillPieces A e.2))

end stitch

/-! ## 5. C14: interpolation -/

section interp
variable {S F : Type} [Add F] [Sub F] [Mul F] [Div F] [Neg F] [Zero F] [LT F] [DecidableLT F] [BEq F]

/-- `np.interp` inside the table: `slope*(x - xp[j]) + fp[j]` on the interval that holds `x` -/
def interpGo (x : F) : (F × F) → List (F × F) → F
  | (_, y0), [] => y0
  | (x0, y0), (x1, y1) :: t =>
    if x < x1 then (y1 - y0) / (x1 - x0) * (x - x0) + y0 else interpGo x (x1, y1) t

/-- `np.interp(x, xp, fp)` with `left = right = None`; `none` for an empty table (`ValueError`) -/
def interp (x : F) : List (F × F) → Option F
  | [] => none
  | (x0, y0) :: t => some (if x < x0 then y0 else interpGo x (x0, y0) t)

/-- `x < xp[0] or x > xp[-1]` -/
def outside (x : F) (xs : List F) : Bool :=
  match xs.head?, xs.getLast? with
  | some a, some b => decide (x < a) || decide (b < x)
  | _, _ => true

def unwrapGo (R : ROps F) : F → F → List F → List F
  | _, _, [] => []
  | prev, cum, p :: t =>
    let dd := p - prev
    let ddmod0 := R.fmod (dd + R.pi) (R.pi + R.pi) - R.pi
    let ddmod := if (ddmod0 == -R.pi) && decide (0 < dd) then R.pi else ddmod0
    let corr := if absF dd < R.pi then 0 else ddmod - dd
    (p + (cum + corr)) :: unwrapGo R p (cum + corr) t

/-- `np.unwrap` (period 2π) -/
def unwrap (R : ROps F) : List F → List F
  | [] => []
  | p :: t => p :: unwrapGo R p 0 t

/-- how `complex_interp` is called: `left = right = None`, or `left = right = INVALID_GAIN` -/
inductive Edge where
  | hold
  | invalid
  deriving DecidableEq, Repr, Inhabited

/-- `complex_interp(x, xi, yi, left, right)` at one `x` -/
def complexInterp (A : CAlg S F) (R : ROps F) (edge : Edge) (pts : List (F × S)) (x : F) : S :=
  let xs := pts.map (·.1)
  let mags := pts.map fun p => A.abs p.2
  let phases := unwrap R (pts.map fun p => A.angle p.2)
  match interp x (xs.zip mags), interp x (xs.zip phases) with
  | some m, some ph => if edge = .invalid ∧ outside x xs = true then A.nan else A.polar m ph
  | _, _ => A.nan

/-! ### delay, bandpass, flux, gain -/

/-- `calc_delay_correction` for one segment: `exp(-2j·π·nan_to_num(d)·freqs)`; `none` = NaN delay -/
def delayCorrection (A : CAlg S F) (R : ROps F) (d : Option F) (freqs : List F) : List S :=
  freqs.map fun f => A.cis (-(R.pi + R.pi) * d.getD 0 * f)

/-- `calc_bandpass_correction` for one segment -/
def bandpassCorrection (A : CAlg S F) (R : ROps F) (dataFreqs calFreqs : List F) (bp : List S) : List S :=
  let pts := (calFreqs.zip bp).filter fun p => A.isFinite p.2
  let smooth := if pts.isEmpty then dataFreqs.map fun _ => A.nan
                else dataFreqs.map (complexInterp A R .invalid pts)
  smooth.map A.inv

/-- the flux-density dict handed to `calibrate_flux`: `measured_flux` updated with the overrides,
    or empty when the caller passed `None` -/
def mergeFlux (measured : List (String × Option F)) (overrides : Option (List (String × Option F))) :
    List (String × Option F) :=
  match overrides with
  | none => []
  | some o => o ++ measured

/-- `gaincal_flux.get(name, nan)`: `none` = missing or NaN -/
def fluxOf (table : List (String × Option F)) (name : String) : Option F :=
  match table.find? (·.1 == name) with
  | some (_, v) => v
  | none => none

/-- the `for name in [target.name] + target.aliases` loop: first flux that is `> 0` -/
def firstFlux (table : List (String × Option F)) : List String → Option F
  | [] => none
  | n :: rest => match fluxOf table n with
    | some v => if 0 < v then some v else firstFlux table rest
    | none => firstFlux table rest

/-- `calibrate_flux`: `segs` = `(start dump, value or the INVALID_GAIN placeholder)`,
    `names d` = `[target.name] + target.aliases` of the target at dump `d` -/
def calibrateFlux (A : CAlg S F) (R : ROps F) (segs : List (Nat × Option (List S)))
    (names : Nat → List String) (table : List (String × Option F)) : List (Nat × Option (List S)) :=
  if table.isEmpty then segs else
  segs.map fun sg => match sg.2 with
    | none => sg
    | some g => match firstFlux table (names sg.1) with
      | some fl => (sg.1, some (g.map fun z => A.divReal z (R.sqrt fl)))
      | none => sg

/-- `np.unique`-like list of the distinct targets (order is irrelevant to the result) -/
def uniq : List Nat → List Nat
  | [] => []
  | a :: t => if (uniq t).contains a then uniq t else a :: uniq t

/-- the valid solutions of channel `c` derived on target `τ`: `isfinite(g) & on_target[events]` -/
def validPts (A : CAlg S F) (R : ROps F) (evs : List (Nat × List S)) (tg : List Nat) (τ c : Nat) :
    List (F × S) :=
  evs.filterMap fun e =>
    let g := e.2.getD c A.nan
    if A.isFinite g && (tg.getD e.1 0 == τ) then some (R.ofNat e.1, g) else none

/-- one pass of the `for target in targets.unique_values` loop -/
def gainPass (A : CAlg S F) (R : ROps F) (evs : List (Nat × List S)) (tg : List Nat) (nChan : Nat)
    (smooth : List (List S)) (τ : Nat) : List (List S) :=
  (List.range smooth.length).map fun d =>
    let row := smooth.getD d []
    if tg.getD d 0 == τ then
      (List.range nChan).map fun c =>
        let pts := validPts A R evs tg τ c
        if pts.isEmpty then row.getD c A.nan else complexInterp A R .hold pts (R.ofNat d)
    else row

/-- `calc_gain_correction(sensor, index, targets)`: `segs` as for `calibrateFlux` (after `[index]`),
    `nDumps = sensor.events[-1]`, `targets` = target id per dump (`none`: all dumps alike) -/
def gainCorrection (A : CAlg S F) (R : ROps F) (segs : List (Nat × Option (List S))) (nDumps : Nat)
    (targets : Option (List Nat)) : List (List S) :=
  let evs := segs.filterMap fun sg => sg.2.map fun g => (sg.1, g)
  match evs with
  | [] => List.replicate nDumps [A.inv A.nan]
  | e0 :: _ =>
    let nChan := e0.2.length
    let tg := targets.getD (List.replicate nDumps 0)
    let init := List.replicate nDumps (List.replicate nChan A.nan)
    let smooth := (uniq tg).foldl (gainPass A R evs tg nChan) init
    smooth.map fun row => row.map A.inv

/-- spec: the smoothed gain at dump `d`, channel `c` -/
def specGain (A : CAlg S F) (R : ROps F) (evs : List (Nat × List S)) (tg : List Nat) (d c : Nat) : S :=
  let pts := validPts A R evs tg (tg.getD d 0) c
  if pts.isEmpty then A.nan else complexInterp A R .hold pts (R.ofNat d)

end interp

end ApplyCal
