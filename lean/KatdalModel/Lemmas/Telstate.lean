/-
  Helper lemmas for C18 (Telstate model).
-/
import KatdalModel.Model.Telstate
open Np Telstate

namespace TelstateL

/-! ## views and the capture-stream prefix order -/

theorem view_cons (v : List Key) (name : Key) : view v name = addSep name :: v := rfl

theorem foldl_view (f : Key → Key) : ∀ (l : List Key) (v : List Key),
    l.reverse.foldl (fun v x => view v (f x)) v = l.map (fun x => addSep (f x)) ++ v := by
  intro l
  induction l with
  | nil => intro v; rfl
  | cons a t ih =>
    intro v
    simp only [List.reverse_cons, List.foldl_append, List.foldl_cons, List.foldl_nil, List.map_cons,
      List.cons_append]
    rw [ih]
    rfl

theorem viewCaptureStream_eq (fuel : Nat) (st : Store) (v : List Key) (cb s : Key) :
    viewCaptureStream fuel st v cb s = (chain fuel st s).map fun streams => specOrder cb streams v := by
  unfold viewCaptureStream
  cases chain fuel st s with
  | none => rfl
  | some streams =>
    show some _ = some _
    have h1 := foldl_view (fun x => x) streams v
    have h2 := foldl_view (fun x => join cb x) streams (view (streams.map addSep ++ v) cb)
    congr 1
    rw [h1, h2]
    rfl

/-! ## the inherit chain -/

/-- `l` is the inherit chain starting at `s`: consecutive elements are linked by `<x>_inherit` and the
    last element has no `inherit` key -/
inductive IsChain (st : Store) : Key → List Key → Prop
  | last (s : Key) : inheritOf st s = none → IsChain st s [s]
  | step (s i : Key) (rest : List Key) : inheritOf st s = some i → IsChain st i rest → IsChain st s (s :: rest)

theorem chain_sound (st : Store) : ∀ (fuel : Nat) (s : Key) (l : List Key),
    chain fuel st s = some l → IsChain st s l := by
  intro fuel
  induction fuel with
  | zero => intro s l h; simp [chain] at h
  | succ f ih =>
    intro s l h
    unfold chain at h
    cases hi : inheritOf st s with
    | none =>
      simp only [hi, Option.some.injEq] at h
      subst h
      exact .last s hi
    | some i =>
      simp only [hi, Option.map_eq_some_iff] at h
      obtain ⟨rest, hr, rfl⟩ := h
      exact .step s i rest hi (ih i rest hr)

theorem chain_complete (st : Store) : ∀ (s : Key) (l : List Key), IsChain st s l →
    ∀ fuel, l.length ≤ fuel → chain fuel st s = some l := by
  intro s l h
  induction h with
  | last s hs =>
    intro fuel hf
    cases fuel with
    | zero => simp at hf
    | succ f => simp [chain, hs]
  | step s i rest hs _ ih =>
    intro fuel hf
    cases fuel with
    | zero => simp at hf
    | succ f =>
      have := ih f (by simp at hf; omega)
      simp [chain, hs, this]

/-- `n` steps along the inherit links -/
def follow (st : Store) : Nat → Key → Option Key
  | 0, s => some s
  | n + 1, s => (inheritOf st s).bind (follow st n)

theorem chain_cycle (st : Store) : ∀ (fuel : Nat) (s : Key),
    (∀ n, (follow st n s).isSome) → chain fuel st s = none := by
  intro fuel
  induction fuel with
  | zero => intro s _; rfl
  | succ f ih =>
    intro s h
    unfold chain
    cases hi : inheritOf st s with
    | none =>
      have := h 1
      simp [follow, hi] at this
    | some i =>
      have : ∀ n, (follow st n i).isSome := by
        intro n
        have := h (n + 1)
        simpa [follow, hi] using this
      simp [ih i this]

theorem isChain_head (st : Store) (s : Key) (l : List Key) (h : IsChain st s l) : l.head? = some s := by
  cases h <;> rfl

/-! ## get = first prefix that defines the key -/

theorem get_first (st : Store) : ∀ (v : List Key) (k : Key) (i : Nat) (hi : i < v.length) (val : Val),
    st.get (v[i] ++ k) = some val → (∀ j (hj : j < i), st.get (v[j]'(by omega) ++ k) = none) →
    Telstate.get st v k = some val := by
  intro v
  induction v with
  | nil => intro k i hi; simp at hi
  | cons p t ih =>
    intro k i hi val hdef hnone
    cases i with
    | zero =>
      simp only [List.getElem_cons_zero] at hdef
      simp [Telstate.get, hdef]
    | succ i =>
      have h0 := hnone 0 (by omega)
      simp only [List.getElem_cons_zero] at h0
      simp only [Telstate.get, List.findSome?_cons, h0]
      simp only [List.getElem_cons_succ] at hdef
      apply ih k i (by simpa using hi) val hdef
      intro j hj
      have := hnone (j + 1) (by omega)
      simpa using this

theorem get_none (st : Store) (v : List Key) (k : Key) :
    Telstate.get st v k = none ↔ ∀ p ∈ v, st.get (p ++ k) = none := by
  simp [Telstate.get, List.findSome?_eq_none_iff]

theorem get_some_mem (st : Store) (v : List Key) (k : Key) (val : Val) (h : Telstate.get st v k = some val) :
    ∃ p ∈ v, st.get (p ++ k) = some val := by
  unfold Telstate.get at h
  obtain ⟨p, hp, hv⟩ := List.exists_of_findSome?_eq_some h
  exact ⟨p, hp, hv⟩

/-! ## shortenKey -/

theorem find_first {α} (q : α → Bool) : ∀ (l : List α) (i : Nat) (hi : i < l.length),
    q l[i] = true → (∀ j (hj : j < i), q (l[j]'(by omega)) = false) → l.find? q = some l[i] := by
  intro l
  induction l with
  | nil => intro i hi; simp at hi
  | cons a t ih =>
    intro i hi hq hn
    cases i with
    | zero => simp only [List.getElem_cons_zero] at hq; simp [hq]
    | succ i =>
      have h0 := hn 0 (by omega)
      simp only [List.getElem_cons_zero] at h0
      simp only [List.find?_cons, h0, List.getElem_cons_succ]
      apply ih i (by simpa using hi) (by simpa using hq)
      intro j hj
      have := hn (j + 1) (by omega)
      simpa using this

theorem isPrefixOf_append_drop (p key : Key) (h : p.isPrefixOf key = true) : p ++ key.drop p.length = key := by
  have := List.isPrefixOf_iff_prefix.mp h
  exact List.prefix_iff_eq_append.mp this

/-! ## chunk info -/

theorem foldl_max_ge (l : List Nat) : ∀ (a : Nat), a ≤ l.foldl max a ∧ ∀ x ∈ l, x ≤ l.foldl max a := by
  induction l with
  | nil => intro a; simp
  | cons b t ih =>
    intro a
    simp only [List.foldl_cons]
    obtain ⟨h1, h2⟩ := ih (max a b)
    refine ⟨by omega, ?_⟩
    intro x hx
    simp only [List.mem_cons] at hx
    rcases hx with rfl | hx
    · omega
    · exact h2 x hx

theorem foldl_max_mem (l : List Nat) : ∀ (a : Nat), l.foldl max a = a ∨ l.foldl max a ∈ l := by
  induction l with
  | nil => intro a; simp
  | cons b t ih =>
    intro a
    simp only [List.foldl_cons, List.mem_cons]
    rcases ih (max a b) with h | h
    · rw [h]
      rcases Nat.le_total a b with hab | hab
      · right; left; omega
      · left; omega
    · right; right; exact h

end TelstateL
